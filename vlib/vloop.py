"""Deterministic virtual-time event loop for gevent (see DESIGN.md 2.1).

A pure-Python object implementing the part of gevent's ILoop interface that
gevent 26.x touches when no real file descriptor is involved.  It is installed
with ``gevent._hub_local.set_loop(VLoop(clock))`` *before* the hub exists.

Semantics (chosen to match gevent/libev where libev is deterministic, and to
be seed-controlled where libev gives no guarantee):

* ``run_callback`` -> FIFO deque, exactly like gevent's own callback list.
* ``timer(after)`` -> heap entry keyed by (due, tie-key).  The tie-key for
  timers due at the same virtual instant is controlled by ``tie_mode``
  ('fifo' | 'lifo' | 'random'); libev promises nothing about it.
* ``run()`` drains callbacks; when none is runnable fires timers that are due;
  when none is due fires idle watchers; when there is nothing of that either
  it jumps the clock to the earliest timer.  It returns when nothing at all is
  left (the hub turns that into LoopExit for a blocked main greenlet).
* ``io()`` raises: the simulation must never touch a real descriptor.
"""
from __future__ import annotations

import heapq
import random
import sys
from collections import deque


class VClock(object):
  """The single source of time.  ``time.time`` is rebound to ``VClock.time``."""

  def __init__(self, start=1700000000.0):
    self.now = float(start)
    # what time.time() reports differs from the loop's own (monotonic) time by this much: a check
    # sets it to model the wall clock being stepped (NTP step, VM resume); reset at every case
    self.wall_offset = 0.0

  def time(self):
    return self.now + self.wall_offset


class _Callback(object):
  __slots__ = ('callback', 'args')

  def __init__(self, callback, args):
    self.callback = callback
    self.args = args

  def stop(self):
    self.callback = None
    self.args = None

  close = stop

  @property
  def pending(self):
    return self.callback is not None

  def __bool__(self):
    return self.args is not None

  def __repr__(self):
    return '<vcallback %r%r>' % (self.callback, self.args)


class _Watcher(object):
  """Common watcher behaviour (start/stop/close/context manager)."""
  _kind = 'watcher'

  def __init__(self, loop, ref=True, priority=None):
    self.loop = loop
    self._callback = None
    self.args = None
    self.ref = ref
    self.priority = priority
    self._active = False

  # -- gevent watcher protocol
  @property
  def callback(self):
    return self._callback

  @callback.setter
  def callback(self, cb):
    self._callback = cb

  @property
  def active(self):
    return self._active

  @property
  def pending(self):
    return False

  def start(self, callback, *args, **kw):
    if callback is None:
      raise TypeError('callback must be callable, not None')
    self._callback = callback
    self.args = args
    self._active = True
    self._on_start(**kw)

  def _on_start(self, **kw):
    pass

  def stop(self):
    self._active = False
    self._callback = None
    self.args = None
    self._on_stop()

  def _on_stop(self):
    pass

  def close(self):
    self.stop()

  def __enter__(self):
    return self

  def __exit__(self, t, v, tb):
    self.close()

  def _fire(self):
    cb, args = self._callback, self.args
    if cb is None:
      return
    try:
      cb(*args)
    except:  # noqa: E722  (gevent semantics: report, keep going)
      self.loop.handle_error(self, *sys.exc_info())

  def __repr__(self):
    return '<v%s active=%s cb=%r>' % (self._kind, self._active, self._callback)


class _Timer(_Watcher):
  _kind = 'timer'

  def __init__(self, loop, after, repeat=0.0, ref=True, priority=None):
    _Watcher.__init__(self, loop, ref, priority)
    self.after = max(0.0, float(after))
    self.repeat = repeat
    self._entry = None

  def _on_start(self, **kw):
    self.loop._add_timer(self)

  def _on_stop(self):
    if self._entry is not None:
      self._entry[3] = None  # tombstone
      self._entry = None

  def again(self, callback, *args, **kw):
    self.stop()
    self.start(callback, *args, **kw)

  @property
  def pending(self):
    return False


class _Idle(_Watcher):
  _kind = 'idle'

  def _on_start(self, **kw):
    self.loop._idles.append(self)

  def _on_stop(self):
    try:
      self.loop._idles.remove(self)
    except ValueError:
      pass


class _Noop(_Watcher):
  """prepare/check/async/signal/fork/child watchers: never fire."""
  _kind = 'noop'

  def send(self):
    pass

  def send_ignoring_arg(self, _ignored):
    pass


class VLoop(object):
  default = True
  approx_timer_resolution = 0.00001
  MAXPRI = 2
  MINPRI = -2

  def __init__(self, clock=None, tie_mode='fifo', tie_seed=0):
    self.clock = clock or VClock()
    self._callbacks = deque()
    self._timers = []
    self._idles = []
    self._seq = 0
    self.error_handler = None
    self.tie_mode = tie_mode
    self._tie_rng = random.Random(tie_seed)
    self.timers_fired = 0
    self.callbacks_run = 0
    self.time_jumps = 0
    self._stop_at = None      # optional hard virtual-time horizon
    self.max_callbacks = None  # optional livelock guard (set by harness)

  # ---- configuration helpers used by the harness
  def set_tie_mode(self, mode, seed=0):
    self.tie_mode = mode
    self._tie_rng = random.Random(seed)

  # ---- ILoop surface
  def now(self):
    return self.clock.now

  def update_now(self):
    pass

  update = update_now

  def run_callback(self, func, *args):
    cb = _Callback(func, args)
    self._callbacks.append(cb)
    return cb

  def run_callback_threadsafe(self, func, *args):
    return self.run_callback(func, *args)

  def timer(self, after, repeat=0.0, ref=True, priority=None):
    return _Timer(self, after, repeat, ref, priority)

  def idle(self, ref=True, priority=None):
    return _Idle(self, ref, priority)

  def prepare(self, ref=True, priority=None):
    return _Noop(self, ref, priority)

  def check(self, ref=True, priority=None):
    return _Noop(self, ref, priority)

  def fork(self, ref=True, priority=None):
    return _Noop(self, ref, priority)

  def async_(self, ref=True, priority=None):
    return _Noop(self, ref, priority)

  def signal(self, signum, ref=True, priority=None):
    return _Noop(self, ref, priority)

  def child(self, pid, trace=0, ref=True):
    return _Noop(self, ref, None)

  def stat(self, path, interval=0.0, ref=True, priority=None):
    return _Noop(self, ref, priority)

  def io(self, fd, events, ref=True, priority=None):
    raise RuntimeError(
      'VLoop.io(fd=%r): a real file descriptor was touched inside the '
      'simulation' % (fd,))

  def closing_fd(self, fd):
    return False

  def install_sigchld(self):
    pass

  def reset_sigchld(self):
    pass

  def reinit(self):
    pass

  def destroy(self):
    self._callbacks.clear()
    self._timers = []
    self._idles = []

  def break_(self, how=None):
    pass

  def ref(self):
    pass

  def unref(self):
    pass

  def verify(self):
    pass

  def _format(self):
    return 'VLoop(now=%r, callbacks=%d, timers=%d)' % (
      self.clock.now, len(self._callbacks), len(self._timers))

  def debug(self):
    return [self._format()]

  @property
  def pendingcnt(self):
    return len(self._callbacks)

  @property
  def activecnt(self):
    return len(self._callbacks) + len(self._timers) + len(self._idles)

  @property
  def WatcherType(self):
    return _Watcher

  def handle_error(self, context, type, value, tb):
    handler = self.error_handler
    if handler is not None:
      handle = getattr(handler, 'handle_error', handler)
      handle(context, type, value, tb)
    else:
      import traceback
      traceback.print_exception(type, value, tb)

  # ---- internals
  def _add_timer(self, t):
    self._seq += 1
    due = self.clock.now + t.after
    if self.tie_mode == 'fifo':
      tie = self._seq
    elif self.tie_mode == 'lifo':
      tie = -self._seq
    else:
      tie = self._tie_rng.random()
    entry = [due, tie, self._seq, t]
    t._entry = entry
    heapq.heappush(self._timers, entry)

  SWITCH_INTERVAL = 0.005

  def _run_callbacks(self):
    cbs = self._callbacks
    n = 0
    self._interrupted = False
    start = self.clock.now
    while cbs:
      if n and self.clock.now - start >= self.SWITCH_INTERVAL:
        # as gevent does: callbacks that keep the CPU (the clock moved while they ran) are cut off
        # after the switch interval so that due timers and I/O get their turn
        self._interrupted = True
        break
      cb = cbs.popleft()
      callback, args = cb.callback, cb.args
      cb.callback = None
      if callback is None or args is None:
        continue
      n += 1
      try:
        callback(*args)
      except:  # noqa: E722
        self.handle_error(cb, *sys.exc_info())
      finally:
        cb.args = None
    self.callbacks_run += n
    if self.max_callbacks is not None and self.callbacks_run > self.max_callbacks:
      raise RuntimeError('VLoop livelock guard: %d callbacks' % self.callbacks_run)
    return n

  def _pop_due_timer(self):
    timers = self._timers
    while timers:
      entry = timers[0]
      if entry[3] is None:
        heapq.heappop(timers)
        continue
      if entry[0] <= self.clock.now:
        heapq.heappop(timers)
        t = entry[3]
        t._entry = None
        return t
      return None
    return None

  def next_timer_due(self):
    timers = self._timers
    while timers and timers[0][3] is None:
      heapq.heappop(timers)
    return timers[0][0] if timers else None

  def run(self, nowait=False, once=False):
    while True:
      if self._run_callbacks() and not self._interrupted:
        continue
      t = self._pop_due_timer()
      if t is not None:
        self.timers_fired += 1
        # one timer, then drain callbacks: the woken greenlet ran inside the
        # timer callback already (gevent switches directly from the watcher).
        cb, args = t._callback, t.args
        t._active = False
        if cb is not None:
          try:
            cb(*args)
          except:  # noqa: E722
            self.handle_error(t, *sys.exc_info())
        continue
      if self._idles:
        # fire every idle watcher registered at this point once
        for w in list(self._idles):
          if w._active:
            w._fire()
        continue
      due = self.next_timer_due()
      if due is None:
        return
      if self._stop_at is not None and due > self._stop_at:
        return
      if due > self.clock.now:
        self.clock.now = due
        self.time_jumps += 1
