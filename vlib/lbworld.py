"""Component harness for the load balancers (C03-C06): the real
ClientTimeoutSink -> real Heap/Aperture balancer -> harness-owned member
channels, a scripted server-set provider, and a reference model of outstanding
requests per member *incarnation* (channel object)."""
import gevent
from gevent.queue import Queue

IDLE, OPEN, BUSY, CLOSED = 1, 2, 3, 4


def _imports():
  from scales.asynchronous import AsyncResult
  from scales.constants import ChannelState, MessageProperties, SinkProperties
  from scales.loadbalancer.serverset import ServerSetProvider
  from scales.loadbalancer.zookeeper import Endpoint
  from scales.message import (Deadline, FailedFastError, MethodCallMessage, MethodReturnMessage,
                              TimeoutError)
  from scales.sink import ClientMessageSink, ClientMessageSinkStack, ClientTimeoutSink, TimeoutSinkProvider
  return locals()


class Member(object):
  """A server-set member as the balancers see it.  When the world's provider names an endpoint
  (zk://...#name), the endpoint the harness talks about is the member's additional endpoint of
  that name and the service endpoint is a decoy nobody must connect to."""
  named = None

  def __init__(self, ep):
    if Member.named:
      if hasattr(ep, '_replace'):            # named tuple
        decoy = ep._replace(host='main-' + ep.host)
      elif isinstance(ep, tuple):
        decoy = ('main-' + ep[0], ep[1])
      else:                                  # scales' Endpoint class
        decoy = type(ep)('main-' + ep.host, ep.port)
      self.service_endpoint = decoy
      self.additional_endpoints = {Member.named: ep, 'admin': decoy}
    else:
      self.service_endpoint = ep
      self.additional_endpoints = {}

  def __repr__(self):
    return 'Member(%s)' % (self.service_endpoint,)


def make_world(env, rng, kind, lb_params=None, open_delay=None, get_servers_delay=0.0,
               get_servers_failures=0, get_servers_dups=0, endpoint_name=None, provider=None):
  """provider: a ready-made ServerSetProvider to put under the balancer instead of the scripted
  one (w.ss is then unused)."""
  Member.named = endpoint_name
  I = _imports()
  AsyncResult, ClientMessageSink = I['AsyncResult'], I['ClientMessageSink']
  MethodReturnMessage, FailedFastError = I['MethodReturnMessage'], I['FailedFastError']
  ServerSetProvider = I['ServerSetProvider']

  class World(object):
    pass
  w = World()
  w.env, w.rng, w.kind = env, rng, kind
  w.channels = []          # every incarnation ever created
  w.requests = []          # every dispatched request record
  w.step = 0
  w.dispatching = None     # request record while a dispatch call is on the stack
  w.created_in_dispatch = []
  w.out = {}
  w.open_delay = open_delay or (lambda ch: 0.0)

  class MemberChannel(ClientMessageSink):
    def __init__(self, ep):
      super(MemberChannel, self).__init__()
      self.ep = ep
      self.inc = len(w.channels)
      self._state = IDLE
      self.down = False          # harness marked it down (connection lost)
      self.inflight = []         # request records currently on this channel
      self.close_steps = []      # steps at which Close() was called
      self.open_calls = 0
      self.requests_seen = 0
      self.created_step = w.step
      self.removed_step = None   # step at which the balancer was told it left / contracted it
      self.opening = None
      self.opens_in_flight = 0   # Open() calls whose result has not completed yet
      self.close_raises = False
      w.channels.append(self)
      if w.dispatching is not None:
        w.created_in_dispatch.append(self)
      env.emit('chan.create', ep=str(ep), inc=self.inc)

    def __repr__(self):
      return 'chan#%d(%s,%s)' % (self.inc, self.ep, {1: 'Idle', 2: 'Open', 3: 'Busy', 4: 'Closed'}[self._state])

    @property
    def state(self):
      return self._state

    def Open(self):
      self.open_calls += 1
      ar = AsyncResult()
      delay, ok = w.open_delay(self)
      me = self

      me.opens_in_flight += 1

      def fin():
        me.opens_in_flight -= 1
        if me.close_steps:
          ar.set_exception(Exception('closed while opening'))
          return
        if ok and not me.down:
          me._state = OPEN
          env.emit('chan.state', inc=me.inc, state='Open')
          ar.set(True)
        else:
          me._state = CLOSED
          env.emit('chan.state', inc=me.inc, state='Closed(open failed)')
          ar.set_exception(Exception('open failed'))
      if delay <= 0:
        fin()
      else:
        g = gevent.Greenlet(fin)
        g.start_later(delay)
      return ar

    def Close(self):
      self.close_steps.append(w.step)
      self._state = CLOSED
      env.emit('chan.close', inc=self.inc)
      if w.close_yields and w.dispatching is None and gevent.getcurrent() is not gevent.get_hub():
        # a channel whose Close() does cooperative work (flushes, waits for a lock): whoever closes
        # it is suspended and everything else that is runnable goes first
        w.close_yielded += 1
        gevent.sleep(0)
      if w.close_fails_inflight and self.inflight:
        # like the multiplexed transports: closing fails what is in flight, synchronously, from
        # inside Close() - the completions re-enter the balancer that is closing the channel
        w.closed_with_inflight += 1
        for r_ in list(self.inflight):
          w.complete(r_, 'closed')
      if self.close_raises:
        # closing a connection whose peer is already gone may report an error
        self.close_raises = False
        import errno
        raise OSError(errno.ENOTCONN, 'Transport endpoint is not connected')

    def set_down(self):
      self.down = True
      if not self.close_steps:
        self._state = CLOSED
        env.emit('chan.state', inc=self.inc, state='Closed(down)')

    def set_up(self):
      self.down = False
      if not self.close_steps:
        self._state = OPEN
        env.emit('chan.state', inc=self.inc, state='Open(up)')

    def AsyncProcessRequest(self, sink_stack, msg, stream, headers):
      req = w.dispatching
      if req is None and msg.args and isinstance(msg.args[0], int) and msg.args[0] < len(w.requests):
        req = w.requests[msg.args[0]]      # dispatch deferred until the balancer opened
      self.requests_seen += 1
      w.out[self] = w.out.get(self, 0) + 1
      if req is not None:
        req['channel'] = self
        req['chan_state_at_dispatch'] = self._state
        req['stamped_ep'] = msg.properties.get('__Endpoint')
      env.emit('lb.dispatch', inc=self.inc, rid=req and req['id'])
      if self._state != OPEN:
        # like the resurrector: a channel that is not up fails fast
        if req is not None:
          req['failed_fast'] = True
        sink_stack.AsyncProcessResponseMessage(MethodReturnMessage(error=FailedFastError()))
        return
      if req is not None:
        req['stack'] = sink_stack
        self.inflight.append(req)

    def AsyncProcessResponse(self, sink_stack, context, stream, msg):
      pass

  class Provider(object):
    Role = None

    def CreateSink(self, props):
      return MemberChannel(props['endpoint'])
  w.MemberChannel = MemberChannel

  class Scripted(ServerSetProvider):
    """Truth server set.  Mutations enqueue notifications that one notifier
    greenlet delivers serially (like the ZooKeeper provider's worker)."""
    endpoint_name = Member.named       # class attribute overriding the base property

    def __init__(self):
      self.truth = {}       # ep -> Member
      self.on_join = self.on_leave = None
      self.queue = Queue()
      self.pending = 0
      self.notifier = None
      self.closed = False
      self.init_calls = 0
      self.failures_left = get_servers_failures
      self.loading = False

    def Initialize(self, on_join, on_leave):
      self.init_calls += 1
      self.on_join, self.on_leave = on_join, on_leave
      if self.notifier is None:
        self.notifier = gevent.spawn(self._run)

    def Close(self):
      self.closed = True
      if self.notifier is not None:
        self.notifier.kill(block=False)

    def GetServers(self):
      self.loading = True
      try:
        if get_servers_delay:
          gevent.sleep(get_servers_delay * 0.5)
        if self.failures_left > 0:
          self.failures_left -= 1
          raise Exception('server set unavailable')
        snap = list(self.truth.values())
        if get_servers_dups and snap:
          # a listing that names a member more than once (merged providers, a repeated address)
          for _ in range(get_servers_dups):
            snap.insert(rng.randint(0, len(snap)), rng.choice(snap))
        if get_servers_delay:
          gevent.sleep(get_servers_delay * 0.5)
        return snap
      finally:
        self.loading = False

    def _run(self):
      while True:
        what, m = self.queue.get()
        try:
          (self.on_join if what == 'join' else self.on_leave)(m)
        except Exception as e:  # noqa: like the ZooKeeper provider's worker: log and carry on
          w.callback_errors.append((what, str(m), repr(e)))
        finally:
          self.pending -= 1

    def notify(self, what, m):
      if self.on_join is None:
        return           # nobody listening yet: the snapshot will carry it
      self.pending += 1
      self.queue.put((what, m))

    def join(self, ep, duplicate=False):
      m = self.truth.get(ep)
      if m is None or not duplicate:
        m = Member(ep)
        self.truth[ep] = m
      env.emit('member.join', ep=str(ep), dup=duplicate)
      self.notify('join', m)

    def leave(self, ep):
      m = self.truth.pop(ep, None) or Member(ep)   # leave of an unknown member is allowed
      env.emit('member.leave', ep=str(ep))
      self.notify('leave', m)
  w.ss = Scripted()
  w.callback_errors = []
  w.close_fails_inflight = False
  w.close_yields = False
  w.close_yielded = 0
  w.closed_with_inflight = 0

  from scales.loadbalancer.heap import HeapBalancerSink
  from scales.loadbalancer.aperture import ApertureBalancerSink
  cls = HeapBalancerSink if kind == 'heap' else ApertureBalancerSink
  # node registry: a recording subclass substituted for the balancer's Node
  w.nodes = []
  base_node = HeapBalancerSink.__dict__['Node']
  if not getattr(base_node, '_verif_recording', False):
    class RecNode(base_node):
      __slots__ = ()
      _verif_recording = True
      registry = None

      def __init__(self, *a, **k):
        base_node.__init__(self, *a, **k)
        if RecNode.registry is not None:
          RecNode.registry.append(self)
    HeapBalancerSink.Node = RecNode
  HeapBalancerSink.Node.registry = w.nodes

  params = dict(lb_params or {})
  params['server_set_provider'] = provider if provider is not None else w.ss
  prov = cls.Builder(**params)
  prov.next_provider = Provider()
  tprov = I['TimeoutSinkProvider']()
  tprov.next_provider = prov
  props = {'label': 'lb%d' % rng.getrandbits(20)}
  w.top = tprov.CreateSink(props)
  w.lb = w.top.next_sink

  def lock_free():
    # The balancer runs some of its work as event-loop callbacks (completion callbacks of channel
    # opens) that take its heap lock; a greenlet suspended while it holds that lock would make
    # them fail (gevent cannot block in the loop).  A yielding log handler is therefore only let
    # yield where the logging greenlet does not hold the lock.
    lk = w.lb._heap_lock
    return getattr(lk, '_owner', None) is not gevent.getcurrent()
  w.lock_free = lock_free

  class Terminator(ClientMessageSink):
    def AsyncProcessRequest(self, *a):
      raise NotImplementedError()

    def AsyncProcessResponse(self, sink_stack, context, stream, msg):
      req = context
      if not req['deliveries'] and req['channel'] is not None:
        w.out[req['channel']] -= 1
      req['deliveries'].append((w.step, env.now, msg))
      env.emit('stack.deliver', rid=req['id'], err=type(msg.error).__name__ if msg.error else None)
      # a sink above the balancer may react to a completion at once (chained call, retry)
      if w.on_delivery is not None and w.dispatching is None and not w.in_chain and len(req['deliveries']) == 1:
        w.in_chain = True
        try:
          w.on_delivery(req)
        finally:
          w.in_chain = False
  w.terminator = Terminator()
  w.on_delivery = None
  w.in_chain = False

  def dispatch(timeout=None):
    """Synchronous dispatch through ClientTimeoutSink -> balancer."""
    req = {'id': len(w.requests), 'step': w.step, 'vt': env.now, 'channel': None, 'deliveries': [],
           'completed': False, 'timeout': timeout, 'failed_fast': False}
    w.requests.append(req)
    msg = I['MethodCallMessage'](None, 'm', (req['id'],), {})
    msg.properties['__Endpoint'] = None
    if timeout is not None:
      msg.properties[I['Deadline'].KEY] = env.clock.time() + timeout      # (deadlines are wall-clock instants)
    stack = I['ClientMessageSinkStack']()
    stack.Push(w.terminator, req)
    w.dispatching = req
    w.created_in_dispatch = []
    try:
      w.top.AsyncProcessRequest(stack, msg, None, {})
    except Exception as e:  # noqa: an exception escaping the balancer is an observation, not a harness crash
      import traceback
      req['raised'] = (e, traceback.format_exc()[-900:])
    finally:
      w.dispatching = None
    req['created_in_dispatch'] = list(w.created_in_dispatch)
    return req
  w.dispatch = dispatch
  w.complete_raised = []

  def complete(req, how='reply'):
    """Complete an in-flight request on its channel."""
    ch = req['channel']
    if req in ch.inflight:
      ch.inflight.remove(req)
    req['completed'] = True
    req['how'] = how
    w.completing.append(req)      # its completion is travelling up: the balancer may have let go of it already
    if how == 'reply':
      m = MethodReturnMessage(return_value=('r', req['id']))
    else:
      m = MethodReturnMessage(error=Exception(how))
    try:
      req['stack'].AsyncProcessResponseMessage(m)
    except Exception as e:  # noqa
      import traceback
      req['complete_raised'] = (e, traceback.format_exc()[-900:])
      w.complete_raised.append(req)
    finally:
      w.completing.remove(req)
  w.complete = complete
  w.completing = []

  def heap_channels():
    return [n.channel for n in w.lb._heap[1:]]
  w.heap_channels = heap_channels

  def model_out(ch):
    """Requests dispatched to ch whose completion (reply, error, timeout,
    fault) has not yet travelled back up the sink stack."""
    return w.out.get(ch, 0)
  w.model_out = model_out
  return w


def attributed_load(node):
  from scales.loadbalancer.heap import HeapBalancerSink as H
  return node.load - H.Idle if node.load < 0 else node.load
