"""Independent Kafka v0 wire codec (request parser, response encoder), written
from "A Guide To The Kafka Protocol" - not from scales' implementation.

  Request   := size:i32 api_key:i16 api_version:i16 correlation_id:i32
               client_id:string body
  Produce   := required_acks:i16 timeout:i32 [topic:string [partition:i32
               message_set_size:i32 message_set]]
  MessageSet:= (offset:i64 message_size:i32 message)*
  Message   := crc:u32 magic:i8 attributes:i8 key:bytes value:bytes
               (crc = CRC32 of magic..end; bytes = i32 length, -1 = null)
  Response  := size:i32 correlation_id:i32 body
"""
import struct
import zlib

API_PRODUCE, API_METADATA = 0, 3


class KafkaFormatError(Exception):
  pass


class R(object):
  def __init__(self, d):
    self.d, self.p = bytes(d), 0

  def take(self, n, what):
    if n < 0 or self.p + n > len(self.d):
      raise KafkaFormatError('truncated %s (need %d at %d of %d)' % (what, n, self.p, len(self.d)))
    b = self.d[self.p:self.p + n]
    self.p += n
    return b

  def i8(self, w): return struct.unpack('>b', self.take(1, w))[0]
  def i16(self, w): return struct.unpack('>h', self.take(2, w))[0]
  def i32(self, w): return struct.unpack('>i', self.take(4, w))[0]
  def u32(self, w): return struct.unpack('>I', self.take(4, w))[0]
  def i64(self, w): return struct.unpack('>q', self.take(8, w))[0]

  def string(self, w):
    n = self.i16(w + ' length')
    return None if n == -1 else self.take(n, w)

  def bytes_(self, w):
    n = self.i32(w + ' length')
    return None if n == -1 else self.take(n, w)

  def done(self):
    return self.p == len(self.d)


def parse_request(data):
  """data: complete request incl. size prefix."""
  r = R(data)
  size = r.i32('size')
  if size != len(data) - 4:
    raise KafkaFormatError('declared size %d != %d bytes that follow' % (size, len(data) - 4))
  out = {'api_key': r.i16('api key'), 'api_version': r.i16('api version'),
         'correlation_id': r.i32('correlation id'), 'client_id': r.string('client id')}
  if out['api_key'] == API_PRODUCE:
    out['acks'] = r.i16('acks')
    out['timeout'] = r.i32('timeout')
    topics = []
    for _ in range(_count(r.i32('topic count'))):
      topic = r.string('topic')
      parts = []
      for _ in range(_count(r.i32('partition count'))):
        pid = r.i32('partition')
        mss = r.i32('message set size')
        ms = R(r.take(mss, 'message set'))
        msgs = []
        while not ms.done():
          off = ms.i64('offset')
          msz = ms.i32('message size')
          m = ms.take(msz, 'message')
          mr = R(m)
          crc = mr.u32('crc')
          if zlib.crc32(m[4:]) & 0xffffffff != crc:
            raise KafkaFormatError('message CRC mismatch')
          magic, attrs = mr.i8('magic'), mr.i8('attributes')
          key = mr.bytes_('key')
          val = mr.bytes_('value')
          if not mr.done():
            raise KafkaFormatError('trailing bytes inside message')
          msgs.append({'offset': off, 'magic': magic, 'attributes': attrs, 'key': key, 'value': val})
        parts.append({'partition': pid, 'messages': msgs})
      topics.append({'topic': topic, 'partitions': parts})
    out['topics'] = topics
  elif out['api_key'] == API_METADATA:
    out['topics'] = [r.string('topic') for _ in range(_count(r.i32('topic count')))]
  else:
    raise KafkaFormatError('unknown api key %d' % out['api_key'])
  if not r.done():
    raise KafkaFormatError('%d trailing bytes after request body' % (len(r.d) - r.p))
  return out


def _count(n):
  if n < 0 or n > 1 << 20:
    raise KafkaFormatError('bad array count %d' % n)
  return n


def _s(b):
  return struct.pack('>h', len(b)) + b


def produce_response_body(topics):
  """topics: [(topic_bytes, [(partition, error, offset)])]"""
  b = struct.pack('>i', len(topics))
  for t, parts in topics:
    b += _s(t) + struct.pack('>i', len(parts))
    for p, e, o in parts:
      b += struct.pack('>ihq', p, e, o)
  return b


def metadata_response_body(brokers, topics):
  """brokers: [(node, host_bytes, port)]; topics: [(err, name, [(perr, pid, leader, replicas, isr)])]"""
  b = struct.pack('>i', len(brokers))
  for n, h, p in brokers:
    b += struct.pack('>i', n) + _s(h) + struct.pack('>i', p)
  b += struct.pack('>i', len(topics))
  for e, name, parts in topics:
    b += struct.pack('>h', e) + _s(name) + struct.pack('>i', len(parts))
    for pe, pid, leader, rep, isr in parts:
      b += struct.pack('>hii', pe, pid, leader)
      b += struct.pack('>i', len(rep)) + b''.join(struct.pack('>i', x) for x in rep)
      b += struct.pack('>i', len(isr)) + b''.join(struct.pack('>i', x) for x in isr)
  return b


def response(correlation_id, body):
  return struct.pack('>ii', 4 + len(body), correlation_id) + body
