"""In-memory ZooKeeper under the *real* Kazoo watch recipes.

FakeKazooClient subclasses KazooClient (ServerSet insists on isinstance) but
never runs its __init__: only the wire-facing methods are replaced, over a
znode tree with ZooKeeper's semantics that matter here:

* reads (get / exists / get_children) take a little virtual time; the read and
  the registration of its one-shot watch are atomic at one instant inside it;
* watches are one-shot and fire on: create (exists watches), delete (data and
  exists watches on the node, child watches on it and on its parent), data
  change (data/exists watches), child create/delete (child watches);
* watch events are delivered in order by one dispatcher greenlet (like Kazoo's
  sequential callback queue); a callback that raises is logged and skipped.
"""
import gevent
from gevent.queue import Queue

from kazoo.client import KazooClient
from kazoo.exceptions import NoNodeError, NodeExistsError
from kazoo.handlers.gevent import SequentialGeventHandler
from kazoo.protocol.states import EventType, KazooState, KeeperState, WatchedEvent, ZnodeStat


class FakeKazooClient(KazooClient):
  def __init__(self, env, rng, latency=(0.0, 0.003)):   # noqa: deliberately no super().__init__
    self.env = env
    self.rng = rng
    self.latency = latency
    self.handler = SequentialGeventHandler()
    self.nodes = {}          # path -> [data, stat fields dict]
    self.zxid = 100
    self.data_watches = {}   # path -> [fn]
    self.child_watches = {}  # path -> [fn]
    self.events = Queue()
    self.listeners = []
    self.started = False
    self.pending_events = 0
    self.callback_errors = []
    self.reads_in_flight = 0
    self._dispatcher = gevent.spawn(self._dispatch)

  # ---- lifecycle ---------------------------------------------------------
  def start(self, timeout=15):
    self.started = True

  def stop(self):
    self.started = False

  def close(self):
    pass

  def shutdown(self):
    self._dispatcher.kill(block=False)

  @property
  def connected(self):
    return True

  @property
  def state(self):
    return KazooState.CONNECTED

  @property
  def client_state(self):
    return KeeperState.CONNECTED

  def add_listener(self, listener):
    self.listeners.append(listener)

  def remove_listener(self, listener):
    if listener in self.listeners:
      self.listeners.remove(listener)

  def retry(self, func, *args, **kwargs):
    return func(*args, **kwargs)

  # ---- reads ---------------------------------------------------------------
  def _rtt(self):
    lo, hi = self.latency
    return lo + (hi - lo) * self.rng.random()

  def _stat(self, path):
    d = self.nodes[path][1]
    nchildren = sum(1 for p in self.nodes if p.rsplit('/', 1)[0] == path and p != path)
    return ZnodeStat(d['czxid'], d['mzxid'], 0, 0, d['version'], d['cversion'], 0, 0,
                     len(self.nodes[path][0] or b''), nchildren, d['pzxid'])

  def _read(self, fn):
    self.reads_in_flight += 1
    try:
      gevent.sleep(self._rtt() / 2)
      try:
        return fn()
      finally:
        gevent.sleep(self._rtt() / 2)
    finally:
      self.reads_in_flight -= 1

  get_faults = 0        # this many reads of member nodes fail with a connection loss ...
  get_fault_skip = 0    # ... after this many have gone through

  def get(self, path, watch=None):
    def do():
      if self.get_faults > 0 and '/member_' in path:
        if self.get_fault_skip > 0:
          self.get_fault_skip -= 1
        else:
          self.get_faults -= 1
          from kazoo.exceptions import ConnectionLoss
          raise ConnectionLoss()
      if path not in self.nodes:
        raise NoNodeError()
      if watch is not None:
        self.data_watches.setdefault(path, []).append(watch)
      return self.nodes[path][0], self._stat(path)
    return self._read(do)

  def exists(self, path, watch=None):
    def do():
      if watch is not None:
        self.data_watches.setdefault(path, []).append(watch)
      return self._stat(path) if path in self.nodes else None
    return self._read(do)

  def get_children(self, path, watch=None, include_data=False):
    def do():
      if path not in self.nodes:
        raise NoNodeError()
      if watch is not None:
        self.child_watches.setdefault(path, []).append(watch)
      return sorted(p.rsplit('/', 1)[1] for p in self.nodes if p.rsplit('/', 1)[0] == path and p != path)
    return self._read(do)

  # ---- mutations (harness side, instantaneous at the server) ---------------
  def _fire(self, table, path, etype):
    fns = table.pop(path, [])
    for fn in fns:
      self.pending_events += 1
      self.events.put((fn, WatchedEvent(etype, KeeperState.CONNECTED, path)))

  def create_node(self, path, data=b''):
    if path in self.nodes:
      raise NodeExistsError()
    parent = path.rsplit('/', 1)[0]
    self.zxid += 1
    self.nodes[path] = [data, {'czxid': self.zxid, 'mzxid': self.zxid, 'version': 0, 'cversion': 0,
                               'pzxid': self.zxid}]
    self.env.emit('zk.create', path=path)
    self._fire(self.data_watches, path, EventType.CREATED)
    if parent in self.nodes:
      self.nodes[parent][1]['cversion'] += 1
      self.nodes[parent][1]['pzxid'] = self.zxid
      self._fire(self.child_watches, parent, EventType.CHILD)

  def delete_node(self, path, recursive=False):
    if path not in self.nodes:
      raise NoNodeError()
    kids = [p for p in self.nodes if p.rsplit('/', 1)[0] == path and p != path]
    if kids and not recursive:
      raise Exception('not empty')
    for k in sorted(kids):
      self.delete_node(k, True)
    parent = path.rsplit('/', 1)[0]
    self.zxid += 1
    del self.nodes[path]
    self.env.emit('zk.delete', path=path)
    self._fire(self.data_watches, path, EventType.DELETED)
    self._fire(self.child_watches, path, EventType.DELETED)
    if parent in self.nodes:
      self.nodes[parent][1]['cversion'] += 1
      self.nodes[parent][1]['pzxid'] = self.zxid
      self._fire(self.child_watches, parent, EventType.CHILD)

  def set_data(self, path, data):
    if path not in self.nodes:
      raise NoNodeError()
    self.zxid += 1
    self.nodes[path][0] = data
    self.nodes[path][1]['mzxid'] = self.zxid
    self.nodes[path][1]['version'] += 1
    self.env.emit('zk.set', path=path)
    self._fire(self.data_watches, path, EventType.CHANGED)

  # ---- ordered watch delivery --------------------------------------------
  def _dispatch(self):
    while True:
      fn, ev = self.events.get()
      try:
        fn(ev)
      except Exception as e:  # noqa: kazoo logs and carries on
        self.callback_errors.append((self.env.now, type(e).__name__, str(e)[:200]))
      finally:
        self.pending_events -= 1

  def quiet(self):
    return self.pending_events == 0 and self.reads_in_flight == 0
