"""Simulated peers: framed-Thrift server, mux server, Kafka broker.

All decoding is independent of scales' codecs: the Thrift library's generated
Processor over the pure-Python TBinaryProtocol, vlib.muxcodec, vlib.kafkacodec.
Every decoded request is recorded (with the byte range of the client->server
stream that carried it) in ``server.requests`` and in the event log.
"""
import struct

from . import muxcodec as mc
from . import kafkacodec as kc


class Service(object):
  """Handler behind the generated Processor.  Replies are injective functions
  of the arguments, so cross-talk between calls is always detectable."""

  def __init__(self):
    self.last = None

  def _rec(self, m, *args):
    self.last = (m, args)

  def hi(self, test_data):
    self._rec('hi', test_data)
    return 'hi:' + test_data

  def echo(self, s):
    self._rec('echo', s)
    if s.startswith('APPEXC:'):
      from thrift.Thrift import TApplicationException
      raise TApplicationException(TApplicationException.INTERNAL_ERROR, 'app:' + s)
    if s.startswith('NONE:'):
      return None       # a handler that returns nothing for a non-void method: the reply carries no field
    return 'echo:' + s

  def add(self, a, b):
    self._rec('add', a, b)
    return a + b

  def notify(self, s):
    self._rec('notify', s)

  def tail(self, s):
    self._rec('tail', s)
    return s.split(':', 1)[1] if ':' in s else ''     # may well be the empty string

  def concat(self, first, second):
    self._rec('concat', first, second)
    return 'first=%s;second=%s' % (first, second)

  def lock(self, key, timeout):
    self._rec('lock', key, timeout)
    return 'locked:%s:%r' % (key, timeout)

  def swap(self, p):
    self._rec('swap', p)
    from vlib.gen.verifsvc.ttypes import Pair
    return Pair(name=(p.name or '')[::-1], n=-(p.n or 0), blob=p.blob, nums=list(reversed(p.nums or [])),
                kv={v: k for k, v in (p.kv or {}).items()})

  def flag(self, b, d):
    self._rec('flag', b, d)
    return not b

  def ping(self):
    self._rec('ping')

  def fail(self, why):
    self._rec('fail', why)
    if why.endswith(':FINE'):
      return 'fine:' + why          # the one way this method returns normally
    from vlib.gen.verifsvc.ttypes import VerifError, OtherError, ThirdError
    if why.startswith('OTHER:'):    # the second and third declared exceptions
      raise OtherError(detail=why, n=len(why) * 1000003)
    if why.startswith('THIRD:'):
      raise ThirdError(tag=why)
    raise VerifError(why=why, code=len(why))

  def vfail(self, why):
    self._rec('vfail', why)
    if why.startswith('ok'):
      return None
    from vlib.gen.verifsvc.ttypes import VerifError, OtherError
    if why.startswith('OTHER:'):
      raise OtherError(detail=why, n=len(why) * 1000003)
    raise VerifError(why=why, code=len(why))

  def blob(self, b):
    self._rec('blob', b)
    return bytes(reversed(b))

  def names(self, m):
    self._rec('names', m)
    return sorted(m)

  def leaf(self, s):
    self._rec('leaf', s)
    return 'leaf:' + s

  def extra(self, *a):
    self._rec('extra', *a)
    if len(a) == 2:       # Ext2Service.extra(n, s)
      return 'extra2:%d:%s' % a
    return 'extra:' + a[0]


def expected_reply(method, args, kwargs=None):
  """What Service would answer (used by oracles): ('value', v) | ('exc', type, fields)."""
  svc = Service()
  try:
    return ('value', getattr(svc, method)(*args, **(kwargs or {})))
  except Exception as e:  # noqa
    return ('exc', e)


class ThriftCore(object):
  """Decode one Thrift call with the library and produce the reply bytes."""

  def __init__(self, processor_module=None):
    if processor_module is None:
      from vlib.gen.verifsvc import ExtService as processor_module
    self.svc = Service()
    self.proc = processor_module.Processor(self.svc)

  def handle(self, payload):
    from thrift.protocol.TBinaryProtocol import TBinaryProtocol
    from thrift.transport.TTransport import TMemoryBuffer
    import logging
    self.svc.last = None
    ib, ob = TMemoryBuffer(payload), TMemoryBuffer()
    lg = logging.getLogger()
    prev = lg.disabled
    lg.disabled = True    # generated processors log.exception() on handler errors
    try:
      self.proc.process(TBinaryProtocol(ib), TBinaryProtocol(ob))
    finally:
      lg.disabled = prev
    consumed_all = ib._buffer.tell() == len(payload)
    return self.svc.last, ob.getvalue(), consumed_all


def mangle_payload(payload, how):
  """Thrift reply payloads a client cannot decode as the reply it expects."""
  if how == 'truncate':
    return payload[:max(1, len(payload) // 2)]
  if how == 'empty':
    return b''
  if how == 'noise':
    return bytes((b * 73 + 41) & 0xff for b in payload[:64]) or b'\xff\xfe'
  if how == 'bad-version':
    return b'\x00\x00' + payload[2:]         # not the strict binary protocol's 0x8001 version word
  if how == 'huge-string':
    # message header kept, then a string field whose length word is 2^31-1
    return payload[:12] + b'\x0b\x00\x00\x7f\xff\xff\xff' + payload[12:20]
  raise ValueError(how)


class DefaultPolicy(object):
  """Reply policy: per request returns a dict of
  delay, drop, chunks, dup, close ('fin'|'rst'|None), close_delay."""

  def __init__(self, delay=0.001):
    self.delay = delay

  def __call__(self, server, conn, req):
    return {'delay': self.delay}

  def ping(self, server, conn, tag):
    return {'delay': 0.0005}


class BaseProtoServer(object):
  def __init__(self, net, host, port, policy=None, processor_module=None):
    self.net = net
    self.env = net.env
    self.policy = policy or DefaultPolicy()
    self.requests = []       # decoded requests, in arrival order
    self.bad_frames = []     # frames the independent decoder rejected
    self.discards = []
    self.pings = []
    self.core = ThriftCore(processor_module)
    self.sim = net.add_server(host, port, self._factory)
    self.ep = self.sim.ep

  def _factory(self, conn):
    return self

  def on_close(self, conn):
    pass

  def _reply(self, conn, req, data, label, payload=None):
    act = self.policy(self, conn, req) or {}
    req['action'] = {k: v for k, v in act.items() if k != 'chunks'}
    req['chunk_delay'] = sum(d_ for _n, d_ in (act.get('chunks') or ()))      # the last byte leaves that much after the first
    if act.get('mangle') and payload is not None:
      # a well-framed reply whose Thrift payload is not what the binary protocol expects
      bad = mangle_payload(payload, act['mangle'])
      data = (struct.pack('>i', len(bad)) + bad) if req.get('proto') == 'thrift' else mc.rdispatch(req['tag'], mc.ST_OK, bad)
      label = 'mangled:' + label
      req['mangled'] = act['mangle']
    if act.get('as') in ('rerr', 'bad_rerr') and req.get('proto') == 'mux':
      # answer the tag with an error frame (current or legacy encoding) instead of Rdispatch
      data = mc.rerr(req['tag'], b'server error', bad=(act['as'] == 'bad_rerr'))
      label = '%s:%d' % (act['as'], req['tag'])
    if act.get('close') and act.get('close_before_reply'):
      conn.close_by_server(act['close'], act.get('close_delay', 0.0))
      return
    if act.get('cut') and not act.get('drop'):
      # the server dies in the middle of writing its reply: a proper prefix of the frame, then FIN
      d = act.get('delay', 0.0)
      k = max(1, min(len(data) - 1, act['cut']))
      conn.write(data[:k], d, None, label + '/cut', close_after='fin')
      req['dropped'] = True
      req['cut'] = k
      return
    if not act.get('drop'):
      d = act.get('delay', 0.0)
      if act.get('close') and act.get('close_delay') == d:
        # answer and close in one go: both are buffered when the client looks
        conn.write(data, d, act.get('chunks'), label, close_after=act['close'])
        req['reply_vt'] = self.env.now + d
        return
      conn.write(data, d, act.get('chunks'), label)
      req['reply_vt'] = self.env.now + d
      if act.get('dup'):
        conn.write(data, d + act.get('dup_delay', 0.0005), None, label + '/dup')
    else:
      req['dropped'] = True
    if act.get('close'):
      conn.close_by_server(act['close'], act.get('close_delay', act.get('delay', 0.0) + 0.0001))


class ThriftServer(BaseProtoServer):
  """4-byte length framing + generated Processor."""

  def on_data(self, conn):
    while True:
      avail = len(conn.c2s) - conn.consumed
      if avail < 4:
        return
      start = conn.consumed
      size = struct.unpack('>i', conn.c2s[start:start + 4])[0]
      if size < 0 or size > 1 << 26:
        self.bad_frames.append({'conn': conn.id, 'why': 'bad frame size %d' % size})
        self.env.emit('srv.bad_frame', conn=conn.id, why='size %d' % size)
        conn.close_by_server('rst')
        return
      if avail < 4 + size:
        return
      payload = bytes(conn.c2s[start + 4:start + 4 + size])
      conn.consumed = start + 4 + size
      try:
        call, reply, consumed_all = self.core.handle(payload)
      except Exception as e:  # noqa: undecodable request
        self.bad_frames.append({'conn': conn.id, 'why': 'thrift decode: %r' % e, 'head': payload[:64]})
        self.env.emit('srv.bad_frame', conn=conn.id, why=repr(e))
        conn.close_by_server('rst')
        return
      req = {'conn': conn.id, 'ep': self.ep, 'start': start, 'end': conn.consumed, 'vt': self.env.now,
             'call': call, 'consumed_all': consumed_all, 'proto': 'thrift'}
      req['seq'] = self.env.emit('srv.request', conn=conn.id, call=_short(call), ep=self.ep)['seq']
      self.requests.append(req)
      self._reply(conn, req, struct.pack('>i', len(reply)) + reply, 'reply:%d' % len(self.requests), payload=reply)


class MuxServer(BaseProtoServer):
  def on_data(self, conn):
    while True:
      avail = len(conn.c2s) - conn.consumed
      if avail < 4:
        return
      start = conn.consumed
      size = struct.unpack('>i', conn.c2s[start:start + 4])[0]
      if size < 4 or size > 1 << 26:
        self._bad(conn, 'bad frame size %d' % size, b'')
        return
      if avail < 4 + size:
        return
      frame = bytes(conn.c2s[start:start + 4 + size])
      conn.consumed = start + 4 + size
      try:
        d = mc.decode_frame(frame)
      except mc.FrameError as e:
        self._bad(conn, str(e), frame)
        return
      typ, tag = d['type'], d['tag']
      self.env.emit('srv.frame', conn=conn.id, type=typ, tag=tag, start=start, end=conn.consumed)
      if typ == mc.T_PING:
        self.pings.append({'conn': conn.id, 'tag': tag, 'vt': self.env.now})
        act = self.policy.ping(self, conn, tag) if hasattr(self.policy, 'ping') else {'delay': 0.0005}
        if act and not act.get('drop'):
          for fr_ in act.get('preface', ()):      # frames of the peer's own that go out ahead of the answer
            conn.write(fr_, act.get('delay', 0.0), None, 'preface')
          conn.write(mc.rping(tag), act.get('delay', 0.0), None, 'rping')
      elif typ == mc.T_DISCARDED:
        rec = {'conn': conn.id, 'discard_tag': d['discard_tag'], 'why': d['why'], 'vt': self.env.now,
               'frame_tag': tag, 'start': start, 'end': conn.consumed}
        rec['seq'] = self.env.emit('srv.discard', conn=conn.id, tag=d['discard_tag'])['seq']
        self.discards.append(rec)
      elif typ == mc.T_DISPATCH:
        try:
          call, reply, consumed_all = self.core.handle(d['payload'])
        except Exception as e:  # noqa
          self._bad(conn, 'thrift payload: %r' % e, frame)
          return
        req = {'conn': conn.id, 'ep': self.ep, 'start': start, 'end': conn.consumed, 'vt': self.env.now,
               'call': call, 'tag': tag, 'contexts': d['contexts'], 'dst': d['dst'], 'dtab': d['dtab'],
               'consumed_all': consumed_all, 'proto': 'mux'}
        req['seq'] = self.env.emit('srv.request', conn=conn.id, call=_short(call), tag=tag, ep=self.ep)['seq']
        self.requests.append(req)
        self._reply(conn, req, mc.rdispatch(tag, mc.ST_OK, reply), 'rdispatch:%d' % tag, payload=reply)
      else:
        self._bad(conn, 'unexpected message type %d from a client' % typ, frame)
        return

  def _bad(self, conn, why, frame):
    self.bad_frames.append({'conn': conn.id, 'why': why, 'head': frame[:64]})
    self.env.emit('srv.bad_frame', conn=conn.id, why=why)
    conn.close_by_server('rst')


class KafkaBroker(BaseProtoServer):
  def __init__(self, net, host, port, policy=None):
    BaseProtoServer.__init__(self, net, host, port, policy)
    self.metadata = ([], [])
    self.next_offset = 1000
    self.error_for = None       # callable(req) -> Kafka error code of the produce response

  def on_data(self, conn):
    while True:
      avail = len(conn.c2s) - conn.consumed
      if avail < 4:
        return
      start = conn.consumed
      size = struct.unpack('>i', conn.c2s[start:start + 4])[0]
      if size < 0 or size > 1 << 26:
        self.bad_frames.append({'conn': conn.id, 'why': 'bad size %d' % size})
        conn.close_by_server('rst')
        return
      if avail < 4 + size:
        return
      data = bytes(conn.c2s[start:start + 4 + size])
      conn.consumed = start + 4 + size
      try:
        r = kc.parse_request(data)
      except kc.KafkaFormatError as e:
        self.bad_frames.append({'conn': conn.id, 'why': str(e), 'head': data[:64]})
        self.env.emit('srv.bad_frame', conn=conn.id, why=str(e))
        conn.close_by_server('rst')
        return
      req = {'conn': conn.id, 'ep': self.ep, 'start': start, 'end': conn.consumed, 'vt': self.env.now,
             'kafka': r, 'proto': 'kafka'}
      req['seq'] = self.env.emit('srv.request', conn=conn.id, corr=r['correlation_id'], api=r['api_key'])['seq']
      self.requests.append(req)
      if r['api_key'] == kc.API_PRODUCE:
        self.next_offset += 1
        req['offset'] = self.next_offset
        code = self.error_for(req) if self.error_for is not None else 0
        req['error_code'] = code
        topics = [(t['topic'], [(p['partition'], code, self.next_offset if code == 0 else -1) for p in t['partitions']])
                  for t in r['topics']]
        body = kc.produce_response_body(topics)
      else:
        body = kc.metadata_response_body(*self.metadata)
      self._reply(conn, req, kc.response(r['correlation_id'], body), 'kafka:%d' % r['correlation_id'])


def _short(call):
  if call is None:
    return None
  m, args = call
  return [m] + [repr(a)[:60] for a in args]
