"""Check framework: case sharding over worker subprocesses, verdict merging,
known-finding classification, evidence and replay files.

A property module ``props/cNN.py`` defines ``CHECK = <instance of BaseCheck>``.
"""
from __future__ import annotations

import hashlib
import importlib
import json
import os
import random
import subprocess
import sys
import tempfile
import time

VERIF = os.path.dirname(os.path.dirname(os.path.abspath(__file__)))
PY = '/venv/bin/python'


class Violation(Exception):
  pass


class CaseHang(BaseException):
  """Raised by the per-case wall-clock alarm inside whatever is running (e.g. a
  non-yielding infinite loop in the code under test).  Never a verdict: the case
  is reported as hung (inconclusive) and the worker carries on."""


class CaseResult(object):
  """What one executed case reports back."""
  __slots__ = ('sig', 'nontrivial', 'obligations', 'violations', 'classes',
               'sample', 'extra')

  def __init__(self):
    self.sig = None            # hashable/str signature for distinctness
    self.nontrivial = False    # did the deciding monitor evaluate anything non-vacuous
    self.obligations = 0       # number of oracle obligations evaluated
    self.violations = []       # list of dicts {kind, facts, msg, witness}
    self.classes = []          # scenario classes this case belongs to
    self.sample = None         # abbreviated description for evidence
    self.extra = {}            # numeric counters merged by summation

  def violate(self, kind, msg, facts=None, witness=None):
    self.violations.append({
      'kind': kind, 'msg': msg if len(msg) <= 3000 else msg[:1500] + ' ...[%d chars]... ' % (len(msg) - 3000) + msg[-1500:],
      'facts': facts or {}, 'witness': witness})


class BaseCheck(object):
  ID = None
  LEVEL = 'exploration'
  RULE = ''
  ANCHORS = ()            # 'module:Qual.name' reached => deciding code ran
  REQUIRED_ANCHORS = ()   # subset that must be reached, else inconclusive
  REQUIRED_CLASSES = ()   # scenario classes that must occur at least once
  ASSUMPTIONS = ()
  MIN_DISTINCT = 2
  EXHAUSTIVE = {}         # tier -> bool
  QUICK_CASES = 100
  THOROUGH_CASES = 1000
  QUICK_WALL = 180       # soft per-worker wall budget (s): stop starting cases
  THOROUGH_WALL = 1800
  MAX_WORKERS = 16
  NEEDS_ENV = True        # install the virtual loop in the worker

  def n_cases(self, tier):
    return self.QUICK_CASES if tier == 'quick' else self.THOROUGH_CASES

  def setup(self, env, tier):
    """Once per worker, after boot."""

  def canaries(self, env):
    """Return list of error strings if the oracle mis-classifies hand-made
    histories.  Non-empty => run is inconclusive."""
    return []

  def run_case(self, env, rng, idx, tier):
    raise NotImplementedError

  def finish(self, env, tier):
    """Once per worker after its cases; may return extra counters."""
    return {}


def case_rng(pid, seed, idx):
  h = hashlib.sha256(('%s:%d:%d' % (pid, seed, idx)).encode()).digest()
  return random.Random(int.from_bytes(h[:8], 'big'))


def load_check(pid):
  sys.path.insert(0, VERIF) if VERIF not in sys.path else None
  mod = importlib.import_module('props.%s' % pid.lower())
  return mod.CHECK


# ---------------------------------------------------------------------------
# worker

def _jsonable(o, depth=0):
  if depth > 8:
    return repr(o)[:200]
  if isinstance(o, (str, int, float, bool)) or o is None:
    return o
  if isinstance(o, bytes):
    return o[:64].hex() + ('..(%d)' % len(o) if len(o) > 64 else '')
  if isinstance(o, dict):
    return {str(k): _jsonable(v, depth + 1) for k, v in list(o.items())[:200]}
  if isinstance(o, (list, tuple, set, frozenset)):
    return [_jsonable(v, depth + 1) for v in list(o)[:400]]
  return repr(o)[:200]


def worker_main(argv):
  import argparse
  ap = argparse.ArgumentParser()
  ap.add_argument('--prop', required=True)
  ap.add_argument('--tier', default='quick')
  ap.add_argument('--seed', type=int, default=0)
  ap.add_argument('--shard', default='0/1')
  ap.add_argument('--out', required=True)
  ap.add_argument('--only', type=int, default=None)
  ap.add_argument('--upto', type=int, default=None,
                  help='replay: run this shard up to and including the case, report that case only')
  a = ap.parse_args(argv)
  si, sn = [int(x) for x in a.shard.split('/')]

  import faulthandler
  faulthandler.enable()
  check = load_check(a.prop)
  env = None
  from . import boot
  if check.NEEDS_ENV:
    env = boot.install()
  else:
    repo = boot.repo_root()
    sys.path.insert(0, repo)
    deps = os.path.join(VERIF, '.deps')
    if os.path.isdir(deps):
      sys.path.append(deps)
  out = {
    'prop': a.prop, 'shard': a.shard, 'evaluations': 0, 'obligations': 0,
    'sigs': {}, 'classes': {}, 'violations': [], 'samples': [],
    'extra': {}, 'anchors': {}, 'canary_errors': [], 'cut_short': False,
    'events': 0, 'error': None, 'missing_anchors': [],
  }
  t0 = boot.REAL_MONO()
  if os.environ.get('VERIF_LINES', '1') != '0':
    boot.LINES.start()
  try:
    check.setup(env, a.tier)
    out['missing_anchors'] = boot.REACH.watch(check.ANCHORS)
    out['canary_errors'] = list(check.canaries(env) or [])
    n = check.n_cases(a.tier)
    budget = check.QUICK_WALL if a.tier == 'quick' else check.THOROUGH_WALL
    budget = float(os.environ.get('VERIF_WALL', budget))
    idxs = [a.only] if a.only is not None else range(si, n, sn)
    if a.upto is not None:
      idxs = range(si, a.upto + 1, sn)
    import signal

    def _alarm(signum, frame):
      raise CaseHang()
    signal.signal(signal.SIGALRM, _alarm)
    case_limit = float(os.environ.get('VERIF_CASE_LIMIT', 45 if a.tier == 'quick' else 180))
    out['hung'] = []

    def _checkpoint():
      # what this worker has found so far, in case it never gets to write its final result (code
      # under test that spins without yielding and swallows the per-case alarm)
      try:
        with open(a.out + '.tmp', 'w') as f_:
          json.dump(dict(out, partial=True, anchors=dict(boot.REACH.counts), lines={}), f_)
        os.replace(a.out + '.tmp', a.out)
      except Exception:
        pass
    for idx in idxs:
      if boot.REAL_MONO() - t0 > budget and a.only is None and a.upto is None:
        out['cut_short'] = True
        break
      rng = case_rng(a.prop, a.seed, idx)
      if env is not None:
        env.begin_case(rng, idx)
      # the alarm repeats: the first one may end up in a greenlet of the code under test and be
      # swallowed there with the loop still spinning in another one
      signal.setitimer(signal.ITIMER_REAL, case_limit, 3.0)
      if a.upto is not None and idx == a.upto and os.environ.get('VERIF_DEBUG_PRE'):
        exec(open(os.environ['VERIF_DEBUG_PRE']).read(), {'env': env, 'check': check})
        signal.setitimer(signal.ITIMER_REAL, 0)
      try:
        res = check.run_case(env, rng, idx, a.tier)
      except CaseHang:
        out['hung'].append(idx)
        _checkpoint()
        if len(out['hung']) >= 3 or out['violations']:
          out['cut_short'] = True
          break
        continue
      finally:
        signal.setitimer(signal.ITIMER_REAL, 0)
      if a.upto is not None and idx != a.upto:
        continue      # history only: the cases before the replayed one ran to reproduce its starting state
      if a.upto is not None and os.environ.get('VERIF_DEBUG_HOOK'):
        exec(open(os.environ['VERIF_DEBUG_HOOK']).read(), {'env': env, 'res': res, 'check': check})
      out['evaluations'] += 1
      out['obligations'] += res.obligations
      if res.nontrivial and res.sig is not None:
        k = json.dumps(_jsonable(res.sig), sort_keys=True)
        out['sigs'][k] = out['sigs'].get(k, 0) + 1
      for c in res.classes:
        out['classes'][c] = out['classes'].get(c, 0) + 1
      for k, v in res.extra.items():
        out['extra'][k] = out['extra'].get(k, 0) + v
      for v in res.violations:
        v = dict(v)
        v['case'] = idx
        v['witness'] = _jsonable(v.get('witness'))
        v['facts'] = _jsonable(v.get('facts'))
        if len(out['violations']) < 200:
          out['violations'].append(v)
        else:
          out['extra']['violations_dropped'] = out['extra'].get('violations_dropped', 0) + 1
      if res.violations:
        _checkpoint()
      if res.sample is not None and len(out['samples']) < 3:
        out['samples'].append(_jsonable(res.sample))
      if env is not None:
        out['events'] += len(env.events)
    fin = check.finish(env, a.tier) or {}
    for v in fin.pop('__violations__', []):
      v = dict(v)
      v.setdefault('case', -1)
      v['witness'] = _jsonable(v.get('witness'))
      v['facts'] = _jsonable(v.get('facts'))
      out['violations'].append(v)
    for k, v in fin.items():
      out['extra'][k] = out['extra'].get(k, 0) + v
  except BaseException as e:  # crash => inconclusive, never a verdict
    import traceback
    out['error'] = '%s: %s\n%s' % (type(e).__name__, e, traceback.format_exc()[-3000:])
  out['anchors'] = dict(boot.REACH.counts)
  out['lines'] = boot.LINES.dump()
  out['wall'] = boot.REAL_MONO() - t0
  with open(a.out, 'w') as f:
    json.dump(out, f)
  return 0


# ---------------------------------------------------------------------------
# runner

def load_known():
  p = os.path.join(VERIF, 'known_findings.json')
  if not os.path.exists(p):
    return []
  with open(p) as f:
    data = json.load(f)
  return [e for e in data.get('findings', []) if e.get('status') == 'known']


def match_known(v, known, pid):
  for e in known:
    if e.get('property') != pid:
      continue
    m = e.get('match', {})
    if m.get('kind') is not None and m['kind'] != v.get('kind'):
      continue
    facts = v.get('facts') or {}
    ok = True
    for k, want in (m.get('facts') or {}).items():
      if facts.get(k) != want:
        ok = False
        break
    if ok:
      return e
  return None


def ensure_deps():
  deps = os.path.join(VERIF, '.deps')
  if os.path.isdir(os.path.join(deps, 'icontract')):
    return
  os.makedirs(deps, exist_ok=True)
  subprocess.run(
    ['/venv/bin/pip', 'install', '-q', '--no-index', '--find-links',
     '/opt/veriftools/wheels', '--target', deps, 'icontract'],
    stdout=subprocess.DEVNULL, stderr=subprocess.DEVNULL, timeout=300)


def runner_main(argv):
  import argparse
  ap = argparse.ArgumentParser()
  ap.add_argument('prop')
  ap.add_argument('--tier', default=os.environ.get('VERIF_TIER') or 'quick')
  ap.add_argument('--replay', default=None)
  ap.add_argument('--workers', type=int, default=None)
  ap.add_argument('--no-evidence', action='store_true')
  a = ap.parse_args(argv)
  pid = a.prop.upper()
  tier = a.tier if a.tier in ('quick', 'thorough') else 'quick'
  try:
    seed = int(os.environ.get('VERIF_SEED', '0') or 0)
  except ValueError:
    seed = 0
  t0 = time.monotonic()
  ensure_deps()
  check = load_check_meta(pid)

  env = dict(os.environ)
  env['PYTHONHASHSEED'] = '0'
  env['PYTHONPATH'] = VERIF
  env.setdefault('VERIF_REPO', '/repo')

  only = None
  replay_workers = None
  if a.replay:
    with open(a.replay) as f:
      rp = json.load(f)
    seed, tier, only = rp['seed'], rp['tier'], rp['case']
    replay_workers = rp.get('workers')
    a.no_evidence = True

  n = check['n_cases'][tier]
  nworkers = a.workers or min(check['max_workers'], max(1, n), os.cpu_count() or 4)
  if only is not None:
    nworkers = 1
  tmpd = tempfile.mkdtemp(prefix='verif-%s-' % pid, dir=os.path.join(VERIF, '.work')
                          if os.path.isdir(os.path.join(VERIF, '.work')) else None)
  procs = []
  for i in range(nworkers):
    outp = os.path.join(tmpd, 'w%d.json' % i)
    cmd = [PY, '-m', 'vlib.worker', '--prop', pid, '--tier', tier, '--seed', str(seed),
           '--shard', '%d/%d' % (i, nworkers), '--out', outp]
    if only is not None and replay_workers:
      # same shard, same history as the run that recorded the violation
      cmd[cmd.index('--shard') + 1] = '%d/%d' % (only % replay_workers, replay_workers)
      cmd += ['--upto', str(only)]
    elif only is not None:
      cmd += ['--only', str(only)]
    errp = open(os.path.join(tmpd, 'w%d.err' % i), 'w')
    procs.append((subprocess.Popen(cmd, cwd=VERIF, env=env, stdout=errp, stderr=errp), outp, errp))
  wall_cap = (check['wall'][tier] * 3 + 120)
  results, problems = [], []
  for p, outp, errp in procs:
    left = max(5.0, wall_cap - (time.monotonic() - t0))
    try:
      p.wait(timeout=left)
    except subprocess.TimeoutExpired:
      p.kill()
      problems.append('worker watchdog fired (wall-clock), shard %s' % outp)
    errp.close()
    if os.path.exists(outp):
      with open(outp) as f:
        results.append(json.load(f))
    else:
      try:
        tail = open(errp.name).read()[-1500:]
      except Exception:
        tail = ''
      problems.append('worker produced no result: rc=%s %s' % (p.returncode, tail))
  # merge
  ev = 0
  obligations = 0
  sigs, classes, extra, anchors = {}, {}, {}, {}
  lines = {}
  violations, samples = [], []
  events = 0
  cut = False
  for r in results:
    if r.get('partial'):
      problems.append('a worker did not finish (killed by the watchdog or crashed); what it had found until then is used')
    if r.get('error'):
      problems.append('worker error: ' + r['error'][-1500:])
    for c in r.get('canary_errors', []):
      problems.append('oracle canary failed: ' + c)
    if r.get('hung'):
      problems.append('case(s) %r did not finish within the per-case wall-clock limit (hung or looping code under '
                      'test?); not a verdict' % (r['hung'][:5],))
    ev += r['evaluations']
    obligations += r['obligations']
    events += r.get('events', 0)
    cut = cut or r.get('cut_short', False)
    for k, v in r['sigs'].items():
      sigs[k] = sigs.get(k, 0) + v
    for k, v in r['classes'].items():
      classes[k] = classes.get(k, 0) + v
    for k, v in r['extra'].items():
      extra[k] = extra.get(k, 0) + v
    for k, v in r['anchors'].items():
      anchors[k] = anchors.get(k, 0) + v
    for k, v in r.get('lines', {}).items():
      lines.setdefault(k, set()).update(v)
    violations.extend(r['violations'])
    for s in r['samples']:
      if len(samples) < 4:
        samples.append(s)
  import shutil
  shutil.rmtree(tmpd, ignore_errors=True)

  known = load_known()
  unknown, known_hits = [], {}
  for v in violations:
    e = match_known(v, known, pid)
    if e is not None:
      known_hits.setdefault(e['id'], [e, 0])[1] += 1
    else:
      unknown.append(v)

  if a.replay:
    # one case (with the history of its shard): no coverage floors, just the verdict on that case
    problems = [p_ for p_ in problems if p_.startswith('worker')]
    mine = [v for v in unknown if v.get('case') == only]
    for v in mine[:5]:
      print('VIOLATION property=%s replay=%s' % (pid, a.replay))
      print('  kind=%s case=%d: %s' % (v['kind'], v['case'], v['msg'][:600]))
    if mine:
      print('%s replay of case %d [%s, seed %d]: reproduced, %d violating observation(s)' % (pid, only, tier, seed, len(mine)))
      return 1
    if problems or ev == 0:
      print('INCONCLUSIVE property=%s reason=replay could not run the case: %s' % (pid, (problems or ['not executed'])[0][-500:]))
      return 2
    print('%s replay of case %d [%s, seed %d]: no violation on the current tree' % (pid, only, tier, seed))
    return 0

  # coverage floors => inconclusive
  if ev == 0:
    problems.append('no case was executed')
  for anc in check['required_anchors']:
    if anchors.get(anc, 0) == 0:
      problems.append('deciding anchor never reached: %s' % anc)
  for c in check['required_classes']:
    if classes.get(c, 0) == 0:
      problems.append('scenario class never produced: %s' % c)
  if len(sigs) < check['min_distinct'] and not unknown:
    problems.append('only %d distinct non-trivial cases (< %d)' % (len(sigs), check['min_distinct']))
  if obligations == 0:
    problems.append('oracle evaluated zero obligations')

  wall = time.monotonic() - t0
  replay_paths = []
  if unknown and not a.replay:
    os.makedirs(os.path.join(VERIF, 'replays'), exist_ok=True)
    seen_kinds = {}
    for v in unknown:
      if seen_kinds.get(v['kind'], 0) >= 3:
        continue
      seen_kinds[v['kind']] = seen_kinds.get(v['kind'], 0) + 1
      rp = os.path.join('replays', '%s-%d-%s-%d.json' % (pid, seed, tier, v['case']))
      with open(os.path.join(VERIF, rp), 'w') as f:
        json.dump({'property': pid, 'seed': seed, 'tier': tier, 'case': v['case'], 'workers': nworkers,
                   'violation': v}, f, indent=1)
      replay_paths.append((rp, v))

  if not a.no_evidence:
    cov = {
      'evaluations': ev,
      'distinct_nontrivial': len(sigs),
      'rule': check['rule'],
      'samples': samples or [{'note': 'no sample captured'}],
      'obligations_checked': obligations,
      'anchors_reached': anchors,
      'scenario_classes': classes,
      'events_recorded': events,
      'counters': extra,
      'known_findings_seen': {k: v[1] for k, v in known_hits.items()},
      'workers': nworkers,
      'cut_short_by_wall_budget': cut,
      'planned_cases': n,
    }
    cov['source_lines_reached'] = line_report(lines, check['anchors'])
    if os.environ.get('VERIF_LINES_DUMP'):      # raw per-file sets for tools/linecov.py (union over checks)
      os.makedirs(os.environ['VERIF_LINES_DUMP'], exist_ok=True)
      with open(os.path.join(os.environ['VERIF_LINES_DUMP'], '%s-%s.json' % (pid, tier)), 'w') as f:
        json.dump({k: sorted(v) for k, v in lines.items()}, f)
    if check['exhaustive'].get(tier) and not cut:
      cov['exhaustive'] = True
    evd = {
      'property_id': pid, 'tier': tier, 'seed': seed, 'level': check['level'],
      'coverage': cov, 'assumptions': list(check['assumptions']),
      'wall_s': round(wall, 3), 'violations': len(unknown),
      'verdict': 'violated' if unknown else ('inconclusive' if problems else 'held'),
      'inconclusive_reasons': problems,
    }
    os.makedirs(os.path.join(VERIF, 'evidence'), exist_ok=True)
    with open(os.path.join(VERIF, 'evidence', '%s.json' % pid), 'w') as f:
      json.dump(evd, f, indent=1, sort_keys=True)

  for kid, (e, cnt) in sorted(known_hits.items()):
    print('KNOWN-FINDING: property=%s %s [%s; seen %d times this run]' % (
      pid, e['what'], kid, cnt))
  if unknown:
    kinds = {}
    for v in unknown:
      kinds[v['kind']] = kinds.get(v['kind'], 0) + 1
    for rp, v in replay_paths:
      print('VIOLATION property=%s replay=%s' % (pid, rp))
      print('  kind=%s case=%d: %s' % (v['kind'], v['case'], v['msg'][:400]))
    print('%s: %d violating observations in %d cases: %s' % (pid, len(unknown), ev, kinds))
    return 1
  if problems:
    for pmsg in list(dict.fromkeys(problems))[:6]:
      print('INCONCLUSIVE property=%s reason=%s' % (pid, pmsg.replace('\n', ' | ')[-700:]))
    return 2
  print('%s held: %d cases, %d distinct non-trivial, %d obligations, %d events, %.1fs [%s, seed %d]' % (
    pid, ev, len(sigs), obligations, events, wall, tier, seed))
  return 0


def _ranges(nums):
  out, run = [], []
  for x in sorted(nums):
    if run and x == run[-1] + 1:
      run.append(x)
    else:
      if run:
        out.append(run)
      run = [x]
  if run:
    out.append(run)
  return ['%d' % r[0] if len(r) == 1 else '%d-%d' % (r[0], r[-1]) for r in out]


def line_report(lines, anchors):
  """Measured by sys.monitoring LINE events in the workers: which source lines of the code under
  test this run executed - per file that holds one of the check's anchor functions, and in total."""
  from . import boot
  root = os.path.realpath(boot.repo_root())
  anchor_files = sorted({a.split(':')[0].replace('.', '/') + '.py' for a in anchors})
  rep = {'files_with_anchor_functions': {}, 'method': 'sys.monitoring LINE events (one-shot per location) in every worker, merged'}
  tot_exec = tot_hit = 0
  for dirpath, _d, files in os.walk(os.path.join(root, 'scales')):
    for fn in files:
      if not fn.endswith('.py'):
        continue
      full = os.path.join(dirpath, fn)
      rel = os.path.relpath(full, root)
      try:
        ex = boot.executable_lines(full)
      except Exception:
        continue
      hit = set(lines.get(rel, ())) & ex
      tot_exec += len(ex)
      tot_hit += len(hit)
      if rel in anchor_files:
        rep['files_with_anchor_functions'][rel] = {
          'executable_lines': len(ex), 'reached': len(hit),
          'not_reached': _ranges(ex - hit)}
  rep['all_of_scales'] = {'executable_lines': tot_exec, 'reached': tot_hit}
  return rep


def load_check_meta(pid):
  """Static metadata of a check (no scales import in the runner process)."""
  c = load_check(pid)
  return {
    'n_cases': {'quick': c.n_cases('quick'), 'thorough': c.n_cases('thorough')},
    'max_workers': c.MAX_WORKERS,
    'wall': {'quick': c.QUICK_WALL, 'thorough': c.THOROUGH_WALL},
    'required_anchors': list(c.REQUIRED_ANCHORS),
    'anchors': list(c.ANCHORS),
    'required_classes': list(c.REQUIRED_CLASSES),
    'min_distinct': c.MIN_DISTINCT,
    'rule': c.RULE,
    'level': c.LEVEL,
    'assumptions': list(c.ASSUMPTIONS),
    'exhaustive': dict(c.EXHAUSTIVE),
  }
