"""C15 routing scenario: concurrent produce calls through the real
KafkaSerializerSink -> KafkaTransportSink over simnet; broker answers in a
seeded order; each caller must get the response to its own correlation id."""
import gevent

_NET = [None]
_PORT = [20000]


def run_routing(env, rng, out, classes):
  from scales.asynchronous import AsyncResult
  from scales.constants import MessageProperties, SinkProperties
  from scales.dispatch import _AsyncResponseSink
  from scales.kafka.sink import KafkaEndpoint, KafkaSerializerSink, KafkaTransportSink
  from scales.message import Deadline, MethodCallMessage, TimeoutError as ScalesTimeout
  from scales.sink import ClientMessageSinkStack, TimeoutSinkProvider
  from . import simnet, servers
  if _NET[0] is None:
    _NET[0] = simnet.Network(env)
    _NET[0].install()
  net = _NET[0]
  net.reset()
  _PORT[0] += 1
  port = _PORT[0]

  with_timeouts = rng.random() < 0.5
  segmented = rng.random() < 0.3
  if segmented:
    classes.add('routing:segmented-responses')

  class Policy(servers.DefaultPolicy):
    def __call__(self, server, conn, req):
      if with_timeouts and rng.random() < 0.4:
        return {'delay': rng.choice([0.03, 0.05, 0.08]) * (1 + 0.2 * rng.random())}    # later than the short deadlines
      act = {'delay': rng.choice([0.0005, 0.001, 0.002, 0.01]) * (1 + rng.random())}
      if segmented and rng.random() < 0.5:
        # the response reaches the client in several segments (cut inside the size prefix as well)
        act['chunks'] = [(rng.randint(1, 9), rng.choice([0.0, 0.0005, 0.002])) for _ in range(rng.randint(1, 4))]
      return act
  broker = servers.KafkaBroker(net, 'kb', port, Policy())
  tp = KafkaTransportSink.Builder()
  if rng.random() < 0.3:
    # a socket whose send() takes only part of a buffer: every request must still arrive whole
    broker.sim.send_limit = rng.choice([1, 3, 17, 64])
    classes.add('routing:short-sends')
  if rng.random() < 0.25:
    # the transport driven over a plain ScalesSocket (no metrics wrapper), as a caller assembling
    # the sinks by hand would: its own read/write loops carry the frames
    from scales.scales_socket import ScalesSocket

    class BareProvider(object):
      Role = None

      def CreateSink(self, props):
        e_ = props[SinkProperties.Endpoint]
        return KafkaTransportSink(ScalesSocket(e_.host, e_.port), props[SinkProperties.Label])
    tp = BareProvider()
    classes.add('routing:bare-socket')
  sp = KafkaSerializerSink.Builder()
  sp.next_provider = tp
  pid = rng.randint(0, 9)
  ep = KafkaEndpoint('kb', port, pid)
  tprov = TimeoutSinkProvider()
  tprov.next_provider = sp
  sink = tprov.CreateSink({SinkProperties.Endpoint: ep, SinkProperties.Label: 'kafka'})
  classes.add('routing')
  out.obligations += 1
  # calls issued while the broker connection is still being established are parked by the
  # transport until the open completes
  while_opening = rng.random() < 0.3
  if while_opening:
    broker.sim.connect_latency = rng.choice([0.005, 0.02])
    classes.add('routing:while-opening')
    open_ar = sink.Open()
  else:
    try:
      sink.Open().get(timeout=5)
    except Exception as e:  # noqa
      out.violate('routing:open-failed', 'kafka transport open failed: %r' % e, {})
      return
  n = rng.choice([1, 2, 5, 12, 20])
  calls = []
  deadline_of = {}

  def issue(i):
    payload = b'cid-%d-%d' % (i, rng.getrandbits(30))
    msg = MethodCallMessage(None, 'Put', (b'topic', [payload], 1), {})
    msg.properties[MessageProperties.Endpoint] = ep
    if with_timeouts:
      T = rng.choice([0.005, 0.012, 1.0, 1.0])
      msg.properties[Deadline.KEY] = env.now + T
      deadline_of[payload] = env.now + T
    ar = AsyncResult()
    stack = ClientMessageSinkStack()
    stack.Push(_AsyncResponseSink(), (None, 0, ar, msg.properties))
    gevent.spawn(sink.AsyncProcessRequest, stack, msg, None, {})
    calls.append((payload, ar))
  for i in range(n):
    issue(i)
    if rng.random() < 0.3:
      gevent.sleep(rng.random() * 0.002)
  if with_timeouts:
    # requests that timed out in transit are still owed an answer: calls issued now, before
    # those late answers arrive, must not be handed them
    classes.add('routing:timeouts')
    for k in range(rng.choice([1, 2, 3])):
      env.advance(rng.choice([0.006, 0.013, 0.02]))
      for i in range(rng.choice([1, 3, 6])):
        issue(len(calls))
    env.advance(1.5)
  env.advance(0.1)
  by_payload = {}
  for r in broker.requests:
    k = r['kafka']
    if k['api_key'] == 0 and k['topics'] and k['topics'][0]['partitions'][0]['messages']:
      by_payload[k['topics'][0]['partitions'][0]['messages'][0]['value']] = r
  if broker.bad_frames:
    out.violate('routing:malformed-on-wire', 'broker rejected a request: %r' % broker.bad_frames[0], {})
  for payload, ar in calls:
    out.obligations += 1
    r = by_payload.get(payload)
    if not ar.ready():
      out.violate('routing:no-reply', 'produce call never completed (request %s)' % (
        'reached broker' if r else 'never reached broker'), {})
      continue
    arrival = None
    if r is not None:
      # when the reply's last byte became readable at the client: replies share the connection, so the
      # pieces of earlier (segmented) replies that trickle out hold back the ones written behind them
      conn_ = next((c_ for c_ in broker.sim.conns if c_.id == r['conn']), None)
      # (correlation ids are recycled: the reply meant is the first one with that id written after the request came in)
      arrival = conn_.arrival_of('kafka:%d' % r['kafka']['correlation_id'], not_before=r['vt']) if conn_ is not None else None
    if isinstance(ar.exception, ScalesTimeout) and payload in deadline_of and \
        (r is None or r.get('reply_vt') is None or arrival is None or
         max(arrival, r['reply_vt'] + r.get('chunk_delay', 0.0)) > deadline_of[payload] - 0.011):
      classes.add('routing:timed-out-in-transit')
      continue      # legitimately timed out: the broker's answer came (or would come) after the deadline
    if ar.exception is not None:
      out.violate('routing:error', 'produce call failed: %r' % ar.exception, {'exc': type(ar.exception).__name__})
      continue
    v = ar.value
    if r is None or len(v) != 1 or v[0].offset != r['offset'] or v[0].partition != pid:
      out.violate('routing:wrong-reply', 'call with payload %r got %r, broker answered its correlation id '
                  '%r with offset %r' % (payload, v, r and r['kafka']['correlation_id'], r and r['offset']), {})
  sink.Close()
  env.settle()
  out.extra['routing_calls'] = out.extra.get('routing_calls', 0) + n


def run_full_client(env, rng, out, classes):
  """A complete Kafka client from the public builder (router sink, per-topic balancers, shared
  serializer/transport sinks) against the simulated broker: metadata bootstrap, then Puts that the
  broker answers with seeded error codes.  Every caller gets either the ProduceResponse carrying
  the offset the broker assigned to that very request, or a KafkaError with the broker's code."""
  from scales.kafka import Kafka
  from scales.kafka.sink import KafkaError
  from . import simnet, servers
  if _NET[0] is None:
    _NET[0] = simnet.Network(env)
    _NET[0].install()
  net = _NET[0]
  net.reset()
  _PORT[0] += 1
  port = _PORT[0]

  class Policy(servers.DefaultPolicy):
    def __call__(self, server, conn, req):
      return {'delay': rng.choice([0.0005, 0.002, 0.01]) * (1 + rng.random())}
  broker = servers.KafkaBroker(net, 'kb', port, Policy())
  nparts = rng.choice([1, 2, 4])
  broker.metadata = ([(7, b'kb', port)],
                     [(0, b'topic', [(0, pid, 7, [7], [7]) for pid in range(nparts)])])
  # codes that mean "reload metadata and retry" (3, 6, 8 ...) are left out; the rest, including codes
  # newer brokers send that the library has no name for, go back to the caller as they are
  codes = {}

  def error_for(req):
    msgs = req['kafka']['topics'][0]['partitions'][0]['messages']
    return codes.get(msgs[0]['value'] if msgs else None, 0)
  broker.error_for = error_for
  classes.add('full-client')
  out.obligations += 1
  try:
    client = Kafka.NewBuilder().SetUri('tcp://kb:%d' % port).SetName('kfull%d' % port).SetTimeout(3.0).Build()
  except Exception as e:  # noqa
    out.violate('full-client:build-failed', 'building a Kafka client against a healthy broker failed: %r' % e, {})
    return
  calls = []
  for i in range(rng.choice([2, 5, 9])):
    payload = b'fc-%d-%d' % (i, rng.getrandbits(30))
    code = rng.choice([0, 0, 0, 2, 7, 10, 13, 17, 19, 20, -1])
    codes[payload] = code
    classes.add('full-client:error-reply' if code else 'full-client:ok-reply')
    if code in (13, 17, 19, 20):
      classes.add('full-client:unlisted-error-code')
    try:
      ar = client.Put_async(b'topic', [payload])
    except Exception as e:  # noqa
      out.violate('full-client:call-raised', 'Put_async raised %r' % e, {})
      continue
    calls.append((payload, code, ar))
    if rng.random() < 0.4:
      env.advance(rng.random() * 0.01)
  env.advance(4.0)
  by_payload = {}
  for r in broker.requests:
    k = r['kafka']
    if k['api_key'] == 0 and k['topics'] and k['topics'][0]['partitions'][0]['messages']:
      by_payload[k['topics'][0]['partitions'][0]['messages'][0]['value']] = r
  for payload, code, ar in calls:
    out.obligations += 1
    r = by_payload.get(payload)
    facts = {'code': code, 'listed': code not in (13, 17, 19, 20)}
    if r is None:
      out.violate('full-client:not-sent', 'Put(%r) never reached the broker' % payload, facts)
      continue
    if not ar.ready():
      out.violate('full-client:no-reply', 'the broker answered Put(%r) with error code %d, the caller never got it' % (
        payload, code), facts)
      continue
    exc = ar.exception
    inner = getattr(exc, 'inner_exception', None) or exc
    if code == 0:
      v = ar.value if exc is None else None
      if exc is not None or len(v) != 1 or v[0].offset != r['offset'] or v[0].error != 0:
        out.violate('full-client:wrong-reply', 'Put(%r): broker assigned offset %r, caller got %r / %r' % (
          payload, r['offset'], v, exc), facts)
    else:
      if not isinstance(inner, KafkaError) or getattr(inner, 'error_code', None) != code:
        out.violate('full-client:wrong-error', 'the broker answered Put(%r) with error code %d, the caller got %r' % (
          payload, code, inner if exc is not None else ar.value), facts)
  try:
    client.DispatcherClose()
  except Exception:  # noqa
    pass
  env.advance(0.2)
  out.extra['full_client_calls'] = out.extra.get('full_client_calls', 0) + len(calls)


def run_reload(env, rng, out, classes):
  """Two brokers, one topic whose partitions they lead.  A Put is answered with a 'not the leader'
  error; the metadata the client then reloads says that partition has no leader any more, so the
  retry has to go to another partition, on the other broker.  Every produce request a broker
  receives must name a partition that broker leads at that moment, and the caller gets the offset
  the broker assigned to the request that was finally accepted."""
  from scales.kafka import Kafka
  from . import simnet, servers
  if _NET[0] is None:
    _NET[0] = simnet.Network(env)
    _NET[0].install()
  net = _NET[0]
  net.reset()
  _PORT[0] += 2
  pa, pb = _PORT[0] - 1, _PORT[0]

  class Policy(servers.DefaultPolicy):
    def __call__(self, server, conn, req):
      return {'delay': rng.choice([0.0005, 0.002]) * (1 + rng.random())}
  brokers = {1: servers.KafkaBroker(net, 'kra', pa, Policy()), 2: servers.KafkaBroker(net, 'krb', pb, Policy())}
  nparts = rng.choice([2, 2, 4])
  leaders = {pid: 1 + (pid % 2) for pid in range(nparts)}

  def publish():
    md = ([(1, b'kra', pa), (2, b'krb', pb)],
          [(0, b'rtopic', [(0, pid, leaders[pid], [1, 2], [1, 2]) for pid in sorted(leaders)])])
    for b in brokers.values():
      b.metadata = md
  publish()
  seen = {}
  wrong = []

  def make_error_for(node):
    def error_for(req):
      t = req['kafka']['topics'][0]
      pid = t['partitions'][0]['partition']
      msgs = t['partitions'][0]['messages']
      key = msgs[0]['value'] if msgs else None
      if leaders.get(pid) != node:
        wrong.append((node, pid, key, dict(leaders)))
        return 6
      seen[key] = seen.get(key, 0) + 1
      if key in moving and seen[key] == 1:
        # this partition's leader goes away: answer 'not the leader', the metadata now says so too
        leaders[pid] = -1
        publish()
        return 6
      return 0
    return error_for
  for node, b in brokers.items():
    b.error_for = make_error_for(node)
  moving = set()
  classes.add('reload')
  out.obligations += 1
  try:
    client = Kafka.NewBuilder().SetUri('tcp://kra:%d' % pa).SetName('krel%d' % pa).SetTimeout(3.0).Build()
  except Exception as e:  # noqa
    out.violate('reload:build-failed', 'building a Kafka client against healthy brokers failed: %r' % e, {})
    return
  calls = []
  for i in range(rng.choice([2, 3])):
    payload = b'rl-%d-%d' % (i, rng.getrandbits(30))
    if i > 0 and len([l for l in leaders.values() if l != -1]) > 1:
      moving.add(payload)
      env.advance(11.0)        # past the router's refresh rate: the error makes it reload the metadata
    try:
      ar = client.Put_async(b'rtopic', [payload])
    except Exception as e:  # noqa
      out.violate('reload:call-raised', 'Put_async raised %r' % e, {})
      continue
    calls.append((payload, ar))
    env.advance(2.0)
  env.advance(4.0)
  for node, pid, key, ld in wrong[:2]:
    out.violate('reload:partition-not-led-by-receiver', 'broker %d received a produce request (payload %r) naming partition %d, '
                'which it does not lead (leaders %r): the request does not name the partition it was routed to' % (
                  node, key, pid, ld), {})
  for payload, ar in calls:
    out.obligations += 1
    accepted = [r for b in brokers.values() for r in b.requests
                if r['kafka']['api_key'] == 0 and r.get('error_code') == 0 and
                r['kafka']['topics'][0]['partitions'][0]['messages'] and
                r['kafka']['topics'][0]['partitions'][0]['messages'][0]['value'] == payload]
    if payload in moving and seen.get(payload, 0) >= 2:
      classes.add('reload:retried-on-other-partition')
    if not ar.ready():
      out.violate('reload:no-reply', 'Put(%r) never completed' % payload, {})
    elif ar.exception is not None:
      if not wrong:
        out.violate('reload:error', 'Put(%r) failed with %r although a partition with a leader was left' % (
          payload, getattr(ar.exception, 'inner_exception', None) or ar.exception), {})
    elif not accepted or len(ar.value) != 1 or ar.value[0].offset != accepted[-1]['offset']:
      out.violate('reload:wrong-reply', 'Put(%r) returned %r, the accepting broker assigned offset %r' % (
        payload, ar.value, accepted and accepted[-1]['offset']), {})
  try:
    client.DispatcherClose()
  except Exception:  # noqa
    pass
  env.advance(0.2)
