"""C15 routing scenario: concurrent produce calls through the real
KafkaSerializerSink -> KafkaTransportSink over simnet; broker answers in a
seeded order; each caller must get the response to its own correlation id."""
import gevent

_NET = [None]
_PORT = [20000]


def run_routing(env, rng, out, classes):
  from scales.asynchronous import AsyncResult
  from scales.constants import MessageProperties, SinkProperties
  from scales.dispatch import _AsyncResponseSink
  from scales.kafka.sink import KafkaEndpoint, KafkaSerializerSink, KafkaTransportSink
  from scales.message import Deadline, MethodCallMessage, TimeoutError as ScalesTimeout
  from scales.sink import ClientMessageSinkStack, TimeoutSinkProvider
  from . import simnet, servers
  if _NET[0] is None:
    _NET[0] = simnet.Network(env)
    _NET[0].install()
  net = _NET[0]
  net.reset()
  _PORT[0] += 1
  port = _PORT[0]

  with_timeouts = rng.random() < 0.5

  class Policy(servers.DefaultPolicy):
    def __call__(self, server, conn, req):
      if with_timeouts and rng.random() < 0.4:
        return {'delay': rng.choice([0.03, 0.05, 0.08]) * (1 + 0.2 * rng.random())}    # later than the short deadlines
      return {'delay': rng.choice([0.0005, 0.001, 0.002, 0.01]) * (1 + rng.random())}
  broker = servers.KafkaBroker(net, 'kb', port, Policy())
  tp = KafkaTransportSink.Builder()
  sp = KafkaSerializerSink.Builder()
  sp.next_provider = tp
  pid = rng.randint(0, 9)
  ep = KafkaEndpoint('kb', port, pid)
  tprov = TimeoutSinkProvider()
  tprov.next_provider = sp
  sink = tprov.CreateSink({SinkProperties.Endpoint: ep, SinkProperties.Label: 'kafka'})
  classes.add('routing')
  out.obligations += 1
  # calls issued while the broker connection is still being established are parked by the
  # transport until the open completes
  while_opening = rng.random() < 0.3
  if while_opening:
    broker.sim.connect_latency = rng.choice([0.005, 0.02])
    classes.add('routing:while-opening')
    open_ar = sink.Open()
  else:
    try:
      sink.Open().get(timeout=5)
    except Exception as e:  # noqa
      out.violate('routing:open-failed', 'kafka transport open failed: %r' % e, {})
      return
  n = rng.choice([1, 2, 5, 12, 20])
  calls = []
  deadline_of = {}

  def issue(i):
    payload = b'cid-%d-%d' % (i, rng.getrandbits(30))
    msg = MethodCallMessage(None, 'Put', (b'topic', [payload], 1), {})
    msg.properties[MessageProperties.Endpoint] = ep
    if with_timeouts:
      T = rng.choice([0.005, 0.012, 1.0, 1.0])
      msg.properties[Deadline.KEY] = env.now + T
      deadline_of[payload] = env.now + T
    ar = AsyncResult()
    stack = ClientMessageSinkStack()
    stack.Push(_AsyncResponseSink(), (None, 0, ar, msg.properties))
    gevent.spawn(sink.AsyncProcessRequest, stack, msg, None, {})
    calls.append((payload, ar))
  for i in range(n):
    issue(i)
    if rng.random() < 0.3:
      gevent.sleep(rng.random() * 0.002)
  if with_timeouts:
    # requests that timed out in transit are still owed an answer: calls issued now, before
    # those late answers arrive, must not be handed them
    classes.add('routing:timeouts')
    for k in range(rng.choice([1, 2, 3])):
      env.advance(rng.choice([0.006, 0.013, 0.02]))
      for i in range(rng.choice([1, 3, 6])):
        issue(len(calls))
    env.advance(1.5)
  env.advance(0.1)
  by_payload = {}
  for r in broker.requests:
    k = r['kafka']
    if k['api_key'] == 0 and k['topics'] and k['topics'][0]['partitions'][0]['messages']:
      by_payload[k['topics'][0]['partitions'][0]['messages'][0]['value']] = r
  if broker.bad_frames:
    out.violate('routing:malformed-on-wire', 'broker rejected a request: %r' % broker.bad_frames[0], {})
  for payload, ar in calls:
    out.obligations += 1
    r = by_payload.get(payload)
    if not ar.ready():
      out.violate('routing:no-reply', 'produce call never completed (request %s)' % (
        'reached broker' if r else 'never reached broker'), {})
      continue
    if isinstance(ar.exception, ScalesTimeout) and payload in deadline_of and \
        (r is None or r.get('reply_vt') is None or r['reply_vt'] > deadline_of[payload] - 0.011):
      classes.add('routing:timed-out-in-transit')
      continue      # legitimately timed out: the broker's answer came (or would come) after the deadline
    if ar.exception is not None:
      out.violate('routing:error', 'produce call failed: %r' % ar.exception, {'exc': type(ar.exception).__name__})
      continue
    v = ar.value
    if r is None or len(v) != 1 or v[0].offset != r['offset'] or v[0].partition != pid:
      out.violate('routing:wrong-reply', 'call with payload %r got %r, broker answered its correlation id '
                  '%r with offset %r' % (payload, v, r and r['kafka']['correlation_id'], r and r['offset']), {})
  sink.Close()
  env.settle()
  out.extra['routing_calls'] = out.extra.get('routing_calls', 0) + n
