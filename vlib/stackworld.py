"""Full-stack harness: a real client built by the public builders
(Thrift.NewBuilder / ThriftMux.NewBuilder) on the virtual loop, talking to
simulated servers through the simulated network.  Records every call at the
client boundary (issue, every completion of its AsyncResult) and everything
the servers decode."""
import gevent
from gevent.queue import Queue

from . import simnet, servers

_TAP = {'installed': False, 'env': None}
_NET = {'net': None}
_PORT = [40000]
_NAME = [0]


def install_ar_tap(env):
  """Record every set()/set_exception() on AsyncResults registered as calls.
  Bookkeeping lives on the object itself (never keyed by id())."""
  _TAP['env'] = env
  if _TAP['installed']:
    return
  from scales.asynchronous import AsyncResult
  from gevent.event import AsyncResult as G
  orig_set, orig_exc = G.set, G.set_exception

  def _record(self, kind, payload):
    rec = self.__dict__.get('_verif_call')
    if rec is not None:
      e = _TAP['env']
      ev = e.emit('call.done', cid=rec['cid'], how=kind,
                  err=type(payload).__name__ if kind == 'exception' else None, n=len(rec['completions']) + 1)
      rec['completions'].append({'vt': e.now, 'seq': ev['seq'], 'kind': kind, 'payload': payload})

  def set(self, value=None):
    _record(self, 'value', value)
    return orig_set(self, value)

  def set_exception(self, exception, exc_info=None):
    _record(self, 'exception', exception)
    return orig_exc(self, exception, exc_info)
  AsyncResult.set = set
  AsyncResult.set_exception = set_exception
  _TAP['installed'] = True


def get_net(env):
  if _NET['net'] is None:
    _NET['net'] = simnet.Network(env)
    _NET['net'].install()
  return _NET['net']


class ScriptedServerSet(object):
  """Truth server set with serial notification delivery (full-stack variant)."""
  endpoint_name = None

  def __init__(self, env):
    self.env = env
    self.truth = {}
    self.on_join = self.on_leave = None
    self.queue = Queue()
    self.notifier = None
    self.pending = 0

  def Initialize(self, on_join, on_leave):
    self.on_join, self.on_leave = on_join, on_leave
    if self.notifier is None:
      self.notifier = gevent.spawn(self._run)

  def Close(self):
    if self.notifier is not None:
      self.notifier.kill(block=False)
      self.notifier = None

  def GetServers(self):
    return list(self.truth.values())

  def _run(self):
    while True:
      what, m = self.queue.get()
      try:
        (self.on_join if what == 'join' else self.on_leave)(m)
      finally:
        self.pending -= 1

  def _member(self, host, port):
    from scales.core import ScalesUriParser
    return ScalesUriParser.Server(ScalesUriParser.Endpoint(host, port))

  def join(self, host, port):
    m = self._member(host, port)
    self.truth[(host, port)] = m
    self.env.emit('member.join', ep='%s:%d' % (host, port))
    if self.on_join is not None:
      self.pending += 1
      self.queue.put(('join', m))

  def leave(self, host, port):
    m = self.truth.pop((host, port), None) or self._member(host, port)
    self.env.emit('member.leave', ep='%s:%d' % (host, port))
    if self.on_leave is not None:
      self.pending += 1
      self.queue.put(('leave', m))


class StackWorld(object):
  def __init__(self, env, rng, kind='thrift', n_eps=1, balancer='aperture', timeout=10.0,
               client_id=None, open_timeout=None, scripted=False, policy=None, iface=None,
               resurrector=None, pool=None, server_modes=None, connect_latency=None, processor_module=None,
               aperture=None, dns=None):
    from scales.constants import SinkRole
    from scales.loadbalancer import HeapBalancerSink
    from scales.pool import WatermarkPoolSink
    from scales.resurrector import ResurrectorSink
    from scales.thrift import Thrift
    from scales.thriftmux import ThriftMux
    from vlib.gen.verifsvc import ExtService
    install_ar_tap(env)
    self.env, self.rng, self.kind = env, rng, kind
    self.net = get_net(env)
    self.net.reset()
    for name_, addr_ in (dns or {}).items():     # host names with addresses of their own (re-addressable later)
      self.net.dns[name_] = addr_
      self.net.addr_owner[addr_] = name_
    self.policy = policy or servers.DefaultPolicy()
    self.servers = []
    self.calls = []
    self.iface = iface or ExtService.Iface
    cls = servers.ThriftServer if kind == 'thrift' else servers.MuxServer
    for i in range(n_eps):
      _PORT[0] += 1
      s = cls(self.net, 'ep%d' % i, _PORT[0], self.policy, processor_module)
      if server_modes:
        s.sim.mode = server_modes[i % len(server_modes)]
      if connect_latency is not None:
        s.sim.connect_latency = connect_latency
      self.servers.append(s)
    if kind == 'thrift':
      b = Thrift.NewBuilder(self.iface)
    else:
      b = ThriftMux.NewBuilder(self.iface, client_id=client_id)
    if balancer == 'heap':
      b = b.ReplaceRole(SinkRole.LoadBalancer, HeapBalancerSink.Builder())
    elif aperture:
      from scales.loadbalancer import ApertureBalancerSink
      b = b.ReplaceRole(SinkRole.LoadBalancer, ApertureBalancerSink.Builder(**aperture))
    if resurrector:
      b = b.ReplaceSink(ResurrectorSink.Builder, ResurrectorSink.Builder(**resurrector))
    if pool and kind == 'thrift':
      b = b.ReplaceRole(SinkRole.Pool, WatermarkPoolSink.Builder(**pool))
    self.ss = None
    if scripted:
      self.ss = ScriptedServerSet(env)
      for s in self.servers:
        self.ss.truth[(s.sim.host, s.sim.port)] = self.ss._member(s.sim.host, s.sim.port)
      b = b.SetServerSetProvider(self.ss)
    else:
      b = b.SetUri('tcp://' + ','.join(s.ep for s in self.servers)) if self.servers else b
    _NAME[0] += 1
    self.name = 'svc%d' % _NAME[0]
    b = b.SetName(self.name).SetTimeout(timeout).SetOpenTimeout(open_timeout)
    self.default_timeout = timeout
    self.build_started = env.now
    self.client = b.Build()
    self.build_returned = env.now
    self.dispatcher = self.client._dispatcher

  # ---- calls
  def call(self, method='echo', args=None, timeout=None, kwargs=None):
    env = self.env
    cid = len(self.calls)
    if args is None:
      args = ('c%d-%d' % (cid, self.rng.getrandbits(24)),)
    T = timeout if timeout is not None else self.default_timeout
    rec = {'cid': cid, 'method': method, 'args': args, 'kwargs': kwargs or {}, 't': env.now, 'T': T,
           'completions': [], 'ar': None, 'open_ready_at_issue': None}
    rec['issue_seq'] = env.emit('call.issue', cid=cid, T=T)['seq']
    oa = self.dispatcher._open_ar
    rec['open_ready_at_issue'] = bool(oa is not None and oa.ready())
    self.calls.append(rec)
    try:
      if timeout is None or timeout == self.default_timeout:
        # the client's default timeout: the call is made the way applications make it, through the
        # generated client (its asynchronous form); other timeouts need the dispatcher's parameter
        rec['via_proxy'] = True
        ar = getattr(self.client, method + '_async')(*args, **(kwargs or {}))
      else:
        ar = self.dispatcher.DispatchMethodCall(method, args, kwargs or {}, timeout=timeout)
    except Exception as e:  # noqa
      rec['dispatch_raised'] = e
      return rec
    ar.__dict__['_verif_call'] = rec
    rec['ar'] = ar
    if ar.ready() and not rec['completions']:
      # completed before we could register it: record what we can see
      rec['completions'].append({'vt': env.now, 'seq': rec['issue_seq'], 'kind': 'exception' if ar.exception else 'value',
                                 'payload': ar.exception or ar.value, 'unobserved': True})
    return rec

  def requests(self):
    out = []
    for s in self.servers:
      out.extend(s.requests)
    return out

  def close(self):
    try:
      self.client.DispatcherClose()
    except Exception:
      pass
    if self.ss is not None:
      self.ss.Close()
