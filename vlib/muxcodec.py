"""Independent mux (finagle) frame codec, written from the protocol description
(https://twitter.github.io/finagle/docs/com/twitter/finagle/mux/ "Mux wire
format"), *not* from scales' serializer:

  frame      := size:4 type:1 tag:3 body            (size counts type+tag+body)
  Tdispatch  := nctx:2 (klen:2 key vlen:2 val)*nctx  dstlen:2 dst  ndtab:2
                (slen:2 src dlen:2 dst)*ndtab  payload
  Rdispatch  := status:1 nctx:2 (klen:2 key vlen:2 val)*nctx payload
  Tdiscarded := discard_tag:3 why
  Rerr       := why
  Tping/Rping:= (empty)
All integers big-endian; type is a signed byte.
"""
import struct

T_DISPATCH, R_DISPATCH = 2, -2
T_PING, R_PING = 65, -65
T_DISCARDED = 66
R_ERR, BAD_R_ERR = -128, 127
ST_OK, ST_ERROR, ST_NACK = 0, 1, 2
DEADLINE_KEY = b'com.twitter.finagle.Deadline'
CLIENT_ID_KEY = b'com.twitter.finagle.thrift.ClientIdContext'


class FrameError(Exception):
  pass


class Reader(object):
  def __init__(self, data):
    self.d = data
    self.p = 0

  def take(self, n, what):
    if n < 0 or self.p + n > len(self.d):
      raise FrameError('truncated %s: need %d bytes at offset %d of %d' % (
        what, n, self.p, len(self.d)))
    b = self.d[self.p:self.p + n]
    self.p += n
    return bytes(b)

  def u16(self, what):
    return struct.unpack('>H', self.take(2, what))[0]

  def i16(self, what):
    return struct.unpack('>h', self.take(2, what))[0]

  def rest(self):
    b = self.d[self.p:]
    self.p = len(self.d)
    return bytes(b)


def split_frames(stream):
  """Split a byte string into (frames, remainder)."""
  frames, p = [], 0
  while len(stream) - p >= 4:
    size = struct.unpack('>i', stream[p:p + 4])[0]
    if size < 4:
      raise FrameError('frame size %d < 4' % size)
    if len(stream) - p - 4 < size:
      break
    frames.append(bytes(stream[p:p + 4 + size]))
    p += 4 + size
  return frames, bytes(stream[p:])


def decode_frame(frame):
  """frame: complete bytes incl. the 4-byte size.  Returns a dict."""
  if len(frame) < 8:
    raise FrameError('frame shorter than 8 bytes')
  size = struct.unpack('>i', frame[:4])[0]
  if size != len(frame) - 4:
    raise FrameError('declared size %d != %d bytes present' % (size, len(frame) - 4))
  typ = struct.unpack('>b', frame[4:5])[0]
  tag = (frame[5] << 16) | (frame[6] << 8) | frame[7]
  r = Reader(frame[8:])
  out = {'type': typ, 'tag': tag}
  if typ == T_DISPATCH:
    n = r.i16('context count')
    if n < 0:
      raise FrameError('negative context count')
    ctx = []
    for i in range(n):
      kl = r.i16('context key length')
      k = r.take(kl, 'context key')
      vl = r.i16('context value length')
      v = r.take(vl, 'context value')
      ctx.append((k, v))
    out['contexts'] = ctx
    dl = r.i16('dst length')
    out['dst'] = r.take(dl, 'dst')
    nd = r.i16('dtab count')
    dtab = []
    for i in range(nd):
      sl = r.i16('dtab src len')
      s = r.take(sl, 'dtab src')
      dl = r.i16('dtab dst len')
      d = r.take(dl, 'dtab dst')
      dtab.append((s, d))
    out['dtab'] = dtab
    out['payload'] = r.rest()
  elif typ == T_DISCARDED:
    b = r.take(3, 'discarded tag')
    out['discard_tag'] = (b[0] << 16) | (b[1] << 8) | b[2]
    out['why'] = r.rest()
  elif typ in (T_PING, R_PING):
    if r.rest():
      raise FrameError('ping with a body')
  else:
    out['body'] = r.rest()
  return out


def decode_deadline(v):
  if len(v) != 16:
    raise FrameError('deadline context value has %d bytes, expected 16' % len(v))
  return struct.unpack('>qq', v)


def header(typ, tag, body_len):
  return struct.pack('>ib', 4 + body_len, typ) + bytes([(tag >> 16) & 0xff, (tag >> 8) & 0xff, tag & 0xff])


def reply_header(typ, tag):
  """The 4 bytes (type, tag) that follow the size."""
  return struct.pack('>b', typ) + bytes([(tag >> 16) & 0xff, (tag >> 8) & 0xff, tag & 0xff])


def enc_contexts(ctx):
  b = struct.pack('>h', len(ctx))
  for k, v in ctx:
    b += struct.pack('>h', len(k)) + k + struct.pack('>h', len(v)) + v
  return b


def rdispatch_body(status, contexts, payload):
  return struct.pack('>b', status) + enc_contexts(contexts) + payload


def frame(typ, tag, body=b''):
  return header(typ, tag, len(body)) + body


def rdispatch(tag, status, payload, contexts=()):
  return frame(R_DISPATCH, tag, rdispatch_body(status, list(contexts), payload))


def rerr(tag, why, bad=False):
  return frame(BAD_R_ERR if bad else R_ERR, tag, why)


def rping(tag):
  return frame(R_PING, tag)
