"""Simulated network placed UNDER the real ScalesSocket / VarzSocketWrapper.

Only two names are rebound, in ``scales.scales_socket``: ``gsocket`` (-> SimSocket)
and the module's ``socket`` reference (-> shim with getaddrinfo + error).
Everything above (ScalesSocket, VarzSocketWrapper, transports, pools, ...) is
the real code.  All waiting is done on gevent primitives of the virtual loop, so
``gevent.Timeout`` and ``kill`` interrupt a blocked connect/recv exactly as
they do with a real socket; ``close()`` from another greenlet throws EBADF into
a blocked reader like gevent's cancel_wait does.
"""
import errno
import sys
import socket as _real_socket

import gevent
from gevent.event import Event

class _Evt(Event):
  cancel_exc = None


AF_INET = _real_socket.AF_INET
SOCK_STREAM = _real_socket.SOCK_STREAM


class Fault(object):
  """What happens at one I/O operation."""
  def __init__(self, kind, err=errno.ECONNRESET):
    self.kind = kind      # 'error' | 'eof' | 'refuse' | 'silence'
    self.err = err

  def __repr__(self):
    return 'Fault(%s)' % self.kind


class Conn(object):
  """One TCP connection, both directions."""

  def __init__(self, net, server, ordinal):
    self.net = net
    self.server = server
    self.ordinal = ordinal          # per server
    self.id = net._next_conn_id()
    self.c2s = bytearray()          # everything the client wrote
    self.sends = []                 # (start, end, seq, vt) per client send
    self.consumed = 0               # server-side parse offset into c2s
    self.s2c_written = 0            # bytes the server wrote
    self.s2c_delivered = 0          # bytes that reached the client's buffer
    self.s2c_read = 0               # bytes the client's recv() returned
    self.rxbuf = bytearray()        # delivered, not yet read by the client
    self.client_closed = False
    self.server_closed = None       # None | 'fin' | 'rst'
    self.silenced = False           # peer hangs: server->client data is held back
    self._held = []
    self.sock = None
    self.handler = None
    self.ops = {'send': 0, 'recv': 0}
    self.opened_vt = net.env.now
    self.closed_vt = None
    self._wire = []                 # pending (due, seq, bytes) not yet delivered
    self._wire_busy = False
    self.max_recv = None
    self.marks = []                 # (s2c offset end, label) for frames the server wrote
    self.delivered_log = []         # (s2c offset reached, instant): when the bytes became readable at the client
    self.mark_times = []            # instant at which each entry of ``marks`` was written

  # ---- server -> client
  def write(self, data, delay=0.0, chunks=None, label=None, close_after=None):
    """Server writes ``data`` after ``delay``; ``chunks`` = list of
    (nbytes, extra_delay) describing how the bytes trickle to the client.
    ``close_after`` ('fin'|'rst'): the peer closes right behind the last byte, so
    the data and the close are both there when the client next looks."""
    if not data:
      return
    if delay > 0:
      g = gevent.Greenlet(self._write_now, bytes(data), chunks, label, close_after)
      g.start_later(delay)
    else:
      self._write_now(bytes(data), chunks, label, close_after)

  def _write_now(self, data, chunks, label, close_after=None):
    if self.client_closed or self.server_closed:
      return
    self.s2c_written += len(data)
    if label is not None:
      self.marks.append((self.s2c_written, label))
      self.mark_times.append(self.net.env.now)
    self.net.env.emit('srv.write', conn=self.id, n=len(data), label=label, end=self.s2c_written)
    pieces = []
    if chunks:
      p = 0
      for n, d in chunks:
        if p >= len(data):
          break
        pieces.append((data[p:p + n], d))
        p += n
      if p < len(data):
        pieces.append((data[p:], 0.0))
    else:
      pieces.append((data, 0.0))
    if close_after:
      pieces.append((b'', 0.0, close_after))
    self._wire.extend(pieces)
    if not self._wire_busy:
      self._wire_busy = True
      gevent.spawn(self._pump)

  def arrival_of(self, label, not_before=None):
    """Instant at which the last byte of the frame written under ``label`` (the first such frame written at or
    after ``not_before``: labels built from recycled ids repeat) became readable at the client (None: not
    yet / never).  Pieces of earlier frames that trickle out delay the ones behind them."""
    end = next((m_[0] for m_, t_ in zip(self.marks, self.mark_times)
                if m_[1] == label and (not_before is None or t_ >= not_before - 1e-9)), None)
    if end is None:
      return None
    return next((t_ for off_, t_ in self.delivered_log if off_ >= end), None)

  def _pump(self):
    try:
      while self._wire:
        item = self._wire.pop(0)
        piece, d = item[0], item[1]
        if len(item) > 2:
          # close marker: takes effect in the same instant as the bytes before it
          if not self.server_closed and not self.client_closed:
            self.server_closed = item[2]
            self.net.env.emit('srv.close', conn=self.id, how=item[2], behind_data=True)
            if self.sock is not None:
              self.sock._wake()
          continue
        if d > 0:
          gevent.sleep(d)
        if self.client_closed:
          return
        if self.silenced:
          self._held.append(piece)      # the peer hangs: nothing arrives until it resumes
          continue
        self.rxbuf += piece
        self.s2c_delivered += len(piece)
        self.delivered_log.append((self.s2c_delivered, self.net.env.now))
        if self.sock is not None:
          self.sock._wake()
    finally:
      self._wire_busy = False

  def resume(self):
    """The hung peer continues: everything it held back arrives, in order."""
    self.silenced = False
    held, self._held = self._held, []
    for piece in held:
      if self.client_closed:
        break
      self.rxbuf += piece
      self.s2c_delivered += len(piece)
    if held and self.sock is not None:
      self.sock._wake()

  def close_by_server(self, how='fin', delay=0.0):
    def do():
      if self.server_closed or self.client_closed:
        return
      self.server_closed = how
      self.net.env.emit('srv.close', conn=self.id, how=how)
      if self.sock is not None:
        self.sock._wake()
    if delay > 0:
      g = gevent.Greenlet(do)
      g.start_later(delay)
    else:
      do()

  def send_range_info(self, start, end):
    """The client send events that carried c2s[start:end]."""
    return [s for s in self.sends if s[0] < end and s[1] > start]


class SimServer(object):
  def __init__(self, net, host, port, handler_factory):
    self.net = net
    self.host, self.port = host, port
    self.handler_factory = handler_factory
    self.mode = 'up'                 # 'up' | 'refuse' | 'blackhole'
    self.connect_latency = 0.0005    # float or callable(rng) -> float
    self.syn_timeout = 127.0
    self.conns = []
    self.connect_attempts = []       # (vt, outcome)
    self.send_delay = None           # callable(conn) -> float: client send takes time
    self.partial_writes = True       # a stalled send commits a prefix first
    self.send_limit = None           # most bytes a single send() accepts (sendall loops)
    self.send_cpu = 0.0              # seconds of CPU every send costs: the clock moves on, nothing else runs

  @property
  def ep(self):
    return '%s:%d' % (self.host, self.port)

  def latency(self):
    l = self.connect_latency
    return l(self.net) if callable(l) else l


class Network(object):
  def __init__(self, env):
    self.env = env
    self.servers = {}
    self.dns = {}
    self.dns_dup = set()
    self.addr_owner = {}
    self.resolutions = 0
    self._conn_id = 0
    self.fault_plan = {}        # (ep, conn_ordinal|None, kind, op_ordinal|None) -> Fault
    self.fault_fn = None        # callable(conn_or_server, kind, ordinal) -> Fault|None
    self.connect_hook = None    # callable(server, origin) run in the instant a connect succeeds
    self.installed = False
    self.all_conns = []
    self.faults_fired = []
    self.read_spins = []
    self.linger_blocks = []

  def _next_conn_id(self):
    self._conn_id += 1
    return self._conn_id

  def install(self):
    import scales.scales_socket as ss
    net = self

    class _ShimMeta(type):
      def __getattr__(cls, name):        # any other constant / helper of the socket module
        return getattr(_real_socket, name)

    class _SockShim(object, metaclass=_ShimMeta):
      """Stands in for the ``socket`` module inside scales.scales_socket."""
      AF_UNSPEC = _real_socket.AF_UNSPEC
      SOCK_STREAM = SOCK_STREAM
      AI_PASSIVE = _real_socket.AI_PASSIVE
      AI_ADDRCONFIG = _real_socket.AI_ADDRCONFIG
      error = _real_socket.error

      @staticmethod
      def getaddrinfo(host, port, *a):
        # name service: a host name may resolve to an address of its own (net.dns), and that may change
        net.resolutions += 1
        key = host.decode('ascii', 'replace') if isinstance(host, bytes) else host
        # resolvers list an address more than once now and then (several hosts-file lines, round-robin records):
        # equal entries, each its own object
        return [(AF_INET, SOCK_STREAM, 6, '', (net.dns.get(key, host), port))
                for _ in range(2 if key in net.dns_dup else 1)]

    def factory(family=AF_INET, type_=SOCK_STREAM, *a):
      return SimSocket(net)
    ss.gsocket = factory
    ss.socket = _SockShim
    self.installed = True

  def reset(self):
    for c in self.all_conns:
      c.client_closed = True
    self.servers = {}
    self.dns = {}            # host name -> address it resolves to now (absent: the name is its own address)
    self.dns_dup = set()     # host names the resolver lists twice
    self.addr_owner = {}     # address -> host name of the server that listens there now
    self.resolutions = 0
    self.fault_plan = {}
    self.fault_fn = None
    self.connect_hook = None
    self.all_conns = []
    self.faults_fired = []
    self.read_spins = []
    self.linger_blocks = []

  def add_server(self, host, port, handler_factory):
    s = SimServer(self, host, port, handler_factory)
    self.servers[(host, port)] = s
    return s

  def fault_for(self, server, conn, kind, ordinal):
    co = conn.ordinal if conn is not None else len(server.conns)
    for key in ((server.ep, co, kind, ordinal), (server.ep, None, kind, ordinal),
                (server.ep, co, kind, None), (server.ep, None, kind, None)):
      f = self.fault_plan.get(key)
      if f is not None:
        if not getattr(f, 'sticky', False):
          del self.fault_plan[key]      # a planned fault fires once
        self.faults_fired.append((key, f.kind, self.env.now))
        if kind == 'connect':
          self._connect_fault_at = (server.ep, co, self.env.now, f)
        return f
    if kind == 'connect' and server.host in self.dns_dup:
      # the same address listed again by the resolver: what made the connect fail a moment ago is still the case
      last = getattr(self, '_connect_fault_at', None)
      if last is not None and last[0] == server.ep and last[1] == co and self.env.now - last[2] < 0.5 and \
          last[3].kind in ('refuse', 'error', 'eof'):
        return last[3]
    if self.fault_fn is not None:
      return self.fault_fn(server, conn, kind, ordinal)
    return None


def _oserr(code):
  import os
  return OSError(code, os.strerror(code))


class SimSocket(object):
  def __init__(self, net):
    self.net = net
    self.conn = None
    self.closed = False
    self._evts = {}          # side ('r' | 'w') -> Event of the greenlet parked there

  # ---- helpers
  def _wake(self, side='r'):
    e = self._evts.get(side)
    if e is not None:
      e.set()

  def _block(self, timeout=None, side='r'):
    """Park the calling greenlet until _wake() / close() / timeout."""
    e = _Evt()
    self._evts[side] = e
    try:
      e.wait(timeout)
    finally:
      if self._evts.get(side) is e:
        del self._evts[side]
    if e.cancel_exc is not None:
      raise e.cancel_exc

  # ---- socket API used by ScalesSocket / VarzSocketWrapper
  _linger = None

  def setsockopt(self, *a):
    if self.closed:
      raise _oserr(errno.EBADF)
    if len(a) == 3 and a[0] == _real_socket.SOL_SOCKET and a[1] == _real_socket.SO_LINGER:
      import struct
      try:
        onoff, secs = struct.unpack('ii', a[2])
        self._linger = float(secs) if onoff else None
      except Exception:
        pass

  _timeout = None

  def settimeout(self, t):
    # as a (gevent) socket: every later blocking operation gives up with socket.timeout after t
    self._timeout = None if t is None else float(t)

  def gettimeout(self):
    return self._timeout

  def _block_op(self, side='r'):
    """Wait (for data / for buffer space) as one socket operation: bounded by the socket's timeout."""
    if self._timeout is None:
      return self._block(side=side)
    left = self._op_deadline - self.net.env.now if getattr(self, '_op_deadline', None) is not None else self._timeout
    if left <= 0:
      self._op_deadline = None
      import socket as _s
      raise _s.timeout('timed out')
    if getattr(self, '_op_deadline', None) is None:
      self._op_deadline = self.net.env.now + self._timeout
    self._block(left, side=side)

  def fileno(self):
    return -1

  def connect(self, addr):
    env = self.net.env
    host, port = addr[0], addr[1]
    if isinstance(host, bytes):        # the resolver accepts bytes host names (Kafka metadata carries them)
      host = host.decode('ascii', 'replace')
    if self.net.dns or self.net.addr_owner:
      # an address (as opposed to a name that is its own address) leads to whoever listens there now
      host = self.net.addr_owner.get(host, None if host in self.net.dns else host)
    srv = self.net.servers.get((host, port))
    env.emit('net.connect.begin', ep='%s:%s' % (host, port))
    if srv is None:
      gevent.sleep(0.0003)
      env.emit('net.connect.end', ep='%s:%s' % (host, port), result='refused-noserver')
      raise _oserr(errno.ECONNREFUSED)
    f = self.net.fault_for(srv, None, 'connect', 0)
    mode = srv.mode
    if f is not None:
      mode = {'refuse': 'refuse', 'silence': 'blackhole', 'error': 'error', 'eof': 'refuse'}[f.kind]
    t0 = env.now
    # who asked for this connection: a reconnection attempt of a resurrector, or the request path
    # (a pool growing, a transport re-establishing itself, the first open)
    origin, g_, hops = 'traffic', gevent.getcurrent(), 0
    while g_ is not None and hops < 12:      # the greenlet itself and the greenlets that spawned it
      if getattr(getattr(g_, '_run', None), '__name__', '') == '_TryResurrect':
        origin = 'resurrector'
        break
      ref = getattr(g_, 'spawning_greenlet', None)
      g_ = ref() if ref is not None else None
      hops += 1
    if mode == 'blackhole':
      # SYNs are dropped; the kernel retransmits after 1,2,4,... seconds and
      # gives up with ETIMEDOUT (Linux default: 6 retries = 127 s)
      att = [t0, 'blackhole', None, origin]
      srv.connect_attempts.append(att)
      waited, step, mode = 0.0, 1.0, None
      while waited < srv.syn_timeout:
        self._block(min(step, srv.syn_timeout - waited))
        waited += step
        step *= 2
        if self.closed:
          raise _oserr(errno.EBADF)
        if srv.mode != 'blackhole' and f is None:
          mode = srv.mode
          break
      if mode is None:
        att[2] = env.now
        env.emit('net.connect.end', ep=srv.ep, result='syn-timeout')
        raise _oserr(errno.ETIMEDOUT)
      srv.connect_attempts.remove(att)     # resolved by a retransmitted SYN: recorded below
    lat = srv.latency()
    if lat > 0:
      self._block(lat)       # interruptible by Timeout/kill/close
    if self.closed:
      raise _oserr(errno.EBADF)
    # the server may have changed state while the SYN was in flight
    if f is None:
      mode = srv.mode if srv.mode != 'blackhole' else 'refuse'
    if mode == 'refuse':
      srv.connect_attempts.append([t0, 'refused', env.now, origin])
      env.emit('net.connect.end', ep=srv.ep, result='refused')
      raise _oserr(errno.ECONNREFUSED)
    if mode == 'error':
      srv.connect_attempts.append([t0, 'error', env.now, origin])
      env.emit('net.connect.end', ep=srv.ep, result='error')
      raise _oserr(f.err)
    conn = Conn(self.net, srv, len(srv.conns))
    conn.sock = self
    srv.conns.append(conn)
    self.net.all_conns.append(conn)
    self.conn = conn
    if mode == 'accept-drop':
      # something in front of a dead backend accepts the connection and hangs up as soon as the
      # client says anything: the connect succeeds, nothing can be done over the connection
      srv.connect_attempts.append([t0, 'accept-drop', env.now, origin])
      conn.drop_on_data = self.net.env.case_rng.choice(['fin', 'rst'])
    else:
      srv.connect_attempts.append([t0, 'ok', env.now, origin])
    conn.handler = srv.handler_factory(conn) if srv.handler_factory else None
    env.emit('net.connect.end', ep=srv.ep, result='ok' if mode != 'accept-drop' else 'accept-drop', conn=conn.id)
    hook = self.net.connect_hook
    if hook is not None:
      hook(srv, origin)       # harness: something else happens in the very instant a connect completes

  def _check_open(self):
    if self.closed or self.conn is None:
      raise _oserr(errno.EBADF if self.closed else errno.ENOTCONN)

  def send(self, data, flags=0):
    # a single send() may accept only part of the buffer (finite socket buffer): callers
    # have to loop, as sendall() does
    lim = getattr(self.conn.server, 'send_limit', None) if self.conn is not None else None
    if lim and len(data) > lim:
      data = bytes(data)[:lim]
    self.sendall(data)
    return len(data)

  def sendall(self, data, flags=0):
    self._check_open()
    conn = self.conn
    env = self.net.env
    ordinal = conn.ops['send']
    conn.ops['send'] += 1
    f = self.net.fault_for(conn.server, conn, 'send', ordinal)
    if f is not None and f.kind == 'transient':
      # a condition that passes (ENOBUFS, EAGAIN, EINTR) reported after part of the buffer was accepted:
      # the connection itself is fine, the accepted prefix is on its way to the peer
      data = bytes(data)
      k = max(0, min(getattr(f, 'after', 0), len(data) - 1))
      self.net.faults_fired.append(((conn.server.ep, conn.ordinal, 'send', ordinal), 'transient', env.now))
      self.net.fault_plan = dict((k_, v_) for k_, v_ in self.net.fault_plan.items() if v_ is not f)
      if k and not conn.server_closed:
        start = len(conn.c2s)
        ev = env.emit('net.send', conn=conn.id, op=ordinal, n=k, start=start, part=0)
        conn.sends.append((start, start + k, ev['seq'], ev['vt']))
        conn.c2s += data[:k]
        if conn.handler is not None and not conn.client_closed:
          conn.handler.on_data(conn)
      env.emit('net.send.fault', conn=conn.id, op=ordinal, fault='transient', accepted=k)
      raise _oserr(f.err)
    if f is not None and f.kind in ('error', 'eof', 'refuse'):
      env.emit('net.send.fault', conn=conn.id, op=ordinal, fault=f.kind)
      conn.server_closed = conn.server_closed or 'rst'
      raise _oserr(errno.EPIPE if f.kind != 'error' else f.err)
    if conn.server_closed == 'rst':
      raise _oserr(errno.EPIPE)
    # A stalled peer (full buffers): a prefix of the data is accepted at once (that
    # is the first send event), the caller stays blocked, the rest follows when the
    # peer drains.  If the caller is interrupted meanwhile only the prefix was written.
    data = bytes(data)
    if conn.server.send_cpu:
      # a write that costs CPU time without yielding (TLS, a slow syscall): time passes for everybody,
      # no timer and no other greenlet runs meanwhile
      env.clock.now += conn.server.send_cpu
    sd = conn.server.send_delay
    d = (sd(conn, len(data)) if getattr(sd, 'wants_size', False) else sd(conn)) if sd else 0.0
    parts = [data]
    if d and d > 0 and len(data) > 1 and conn.server.partial_writes:
      cut = self.net.env.case_rng.randint(1, len(data) - 1)
      parts = [data[:cut], data[cut:]]
    for pi, part in enumerate(parts):
      start = len(conn.c2s)
      ev = env.emit('net.send', conn=conn.id, op=ordinal, n=len(part), start=start, part=pi)
      conn.sends.append((start, start + len(part), ev['seq'], ev['vt']))
      conn.c2s += part
      if f is not None and f.kind == 'silence':
        # bytes vanish (peer never sees them); nothing else happens
        conn.consumed = len(conn.c2s)
        continue
      if pi == 0 and d and d > 0:
        conn.undrained_until = env.now + d      # what was accepted sits unacknowledged in the kernel until then
        self._block(d, side='w')
        if self.closed:
          raise _oserr(errno.EBADF)
      if conn.server_closed:
        continue          # FIN'd peer: bytes are dropped silently
      if getattr(conn, 'drop_on_data', None):
        conn.close_by_server(conn.drop_on_data)
        continue
      if conn.handler is not None and not conn.client_closed and (pi == len(parts) - 1):
        conn.handler.on_data(conn)

  def recv(self, n, flags=0):
    buf = bytearray(n)
    k = self.recv_into(buf, n)
    return bytes(buf[:k])

  def recv_into(self, buf, nbytes=0, flags=0):
    self._check_open()
    conn = self.conn
    env = self.net.env
    ordinal = conn.ops['recv']
    conn.ops['recv'] += 1
    n = nbytes or len(buf)
    f = self.net.fault_for(conn.server, conn, 'recv', ordinal)
    if f is not None:
      env.emit('net.recv.fault', conn=conn.id, op=ordinal, fault=f.kind)
      if f.kind == 'error':
        conn.server_closed = 'rst'
        raise _oserr(f.err)
      if f.kind in ('eof', 'refuse'):
        conn.server_closed = conn.server_closed or 'fin'
        conn.rxbuf = bytearray()
        return 0
      if f.kind == 'silence':
        conn.silenced = True
        conn._held.append(bytes(conn.rxbuf))
        conn.rxbuf = bytearray()
    while True:
      if self.closed:
        raise _oserr(errno.EBADF)
      if conn.rxbuf:
        k = min(n, len(conn.rxbuf))
        if conn.max_recv:
          k = min(k, conn.max_recv)
        buf[:k] = conn.rxbuf[:k]
        del conn.rxbuf[:k]
        conn.s2c_read += k
        env.emit('net.recv', conn=conn.id, op=ordinal, n=k, upto=conn.s2c_read)
        self._op_deadline = None
        return k
      if conn.server_closed == 'rst':
        raise _oserr(errno.ECONNRESET)
      if conn.server_closed == 'fin' and not conn._wire:
        # End of stream: every further read returns 0 at once, as the kernel does.  A reader that
        # keeps asking (a read loop without an end-of-stream check) would spin for ever without
        # yielding; the simulation counts the consecutive empty reads in one virtual instant and,
        # at 2000, records the spin (an observation for the monitors) and breaks it with a reset.
        spin = getattr(conn, '_eof_spin', (None, 0))
        spin = (env.now, spin[1] + 1) if spin[0] == env.now else (env.now, 1)
        conn._eof_spin = spin
        if spin[1] >= 2000:
          conn._eof_spin = (None, 0)
          env.emit('net.read-spin', conn=conn.id, op=ordinal, reads=spin[1])
          self.net.read_spins.append((conn.id, env.now))
          raise _oserr(errno.ECONNRESET)
        if spin[1] == 1:
          env.emit('net.recv', conn=conn.id, op=ordinal, n=0, upto=conn.s2c_read)
        self._op_deadline = None
        return 0
      self._block_op()

  def close(self):
    if self.closed:
      return
    self.closed = True
    conn = self.conn
    if conn is not None and not conn.client_closed and self._linger and \
        getattr(conn, 'undrained_until', 0.0) > self.net.env.now and not conn.server_closed:
      # SO_LINGER: close() blocks - the whole process, nothing else runs - until the queued data has
      # been acknowledged or the linger time is over
      env_ = self.net.env
      held = min(self._linger, conn.undrained_until - env_.now)
      env_.emit('net.close.linger', conn=conn.id, blocked=held)
      env_.clock.now += held
      self.net.linger_blocks.append((conn.id, held))
    if conn is not None and not conn.client_closed:
      conn.client_closed = True
      conn.closed_vt = self.net.env.now
      self.net.env.emit('net.close', conn=conn.id)
      if conn.handler is not None and hasattr(conn.handler, 'on_close'):
        conn.handler.on_close(conn)
    # gevent semantics: a greenlet blocked on this socket gets EBADF thrown
    for e in list(self._evts.values()):
      e.cancel_exc = OSError(errno.EBADF, 'File descriptor was closed in another greenlet')
      e.set()

  def shutdown(self, how):
    # as the kernel does: a connection that the peer has reset (or that a failed write has
    # already torn down) is no longer connected; after a FIN, or on a healthy one, it succeeds
    self._check_open()
    if self.conn.server_closed == 'rst':
      raise _oserr(errno.ENOTCONN)
