"""Bootstrap of the monitored process: virtual loop, virtual time, repo path,
error/log taps, reach counters.  Must run before anything imports ``scales``
or creates the gevent hub."""
from __future__ import annotations

import logging
import os
import random
import sys
import time as _time

from .vloop import VClock, VLoop

REAL_TIME = _time.time
REAL_MONO = _time.monotonic

_ENV = None


class Env(object):
  """Handle on the simulation: clock, loop, event log, captured errors/logs."""

  def __init__(self, clock, loop, repo):
    self.clock = clock
    self.loop = loop
    self.repo = repo
    self.errors = []       # unhandled exceptions in greenlets/callbacks
    self.logs = []         # (level, logger, message) from scales.* loggers
    self.events = []       # append-only event log of the current case
    self.events_total = 0
    self._seq = 0
    self.case_rng = random.Random(0)

  # ---- event log
  def emit(self, kind, **kw):
    self._seq += 1
    kw['seq'] = self._seq
    kw['vt'] = self.clock.now
    kw['kind'] = kind
    self.events.append(kw)
    return kw

  @property
  def now(self):
    return self.clock.now

  # ---- driving virtual time from the harness (main) greenlet
  def settle(self):
    """Return once nothing is runnable at the current virtual instant."""
    import gevent
    gevent.idle()

  def advance(self, dt):
    import gevent
    if dt > 0:
      gevent.sleep(dt)
    gevent.idle()

  def run_until(self, t):
    if t > self.clock.now:
      self.advance(t - self.clock.now)
    else:
      self.settle()

  # ---- per-case reset
  CASE_SLOT = 20000.0     # virtual seconds reserved per case index

  log_yields = None
  log_yield_ok = None
  log_yield_delay = 0.0
  log_hook = None          # callable(level, logger, message) run by the log handler (its I/O is a suspension point)

  def yielding_logs(self, on=True):
    """Debug logging of the library switched on, through a handler that yields to the loop on every
    record (env.log_yields counts them); off again at the next begin_case."""
    self.log_yields = 0 if on else None
    # optional predicate of the check: False = this record is written without yielding (e.g. the
    # greenlet that logs holds a lock that event-loop callbacks of the library need)
    self.log_yield_ok = None
    # how long the handler's I/O takes (0 = it only yields)
    self.log_yield_delay = 0.0
    logging.getLogger('scales').setLevel(logging.DEBUG if on else logging.INFO)

  def begin_case(self, rng, idx=None):
    self.events_total += len(self.events)
    self.events = []
    self.errors = []
    self.logs = []
    self.yielding_logs(False)
    self.log_hook = None
    self.clock.wall_offset = 0.0
    self.case_rng = rng
    # scales uses the global ``random`` (heap re-insertion, aperture choice,
    # ping period, shuffle): make it a function of the case
    random.seed(rng.getrandbits(64))
    self.loop.set_tie_mode(rng.choice(('fifo', 'fifo', 'lifo', 'random')),
                           rng.getrandbits(32))
    # sub-millisecond noise so deadlines are not aligned with the 10ms grid
    if idx is not None:
      # a case starts at an instant that depends on its index only (so a replay of
      # one case sees the clock the full run saw), unless earlier cases overran
      self.clock.now = max(self.clock.now, 1700000000.0 + idx * self.CASE_SLOT)
    self.clock.now += rng.random() * 0.0099 + 1e-5
    try:
      from scales.varz import VarzReceiver
      VarzReceiver.VARZ_DATA.clear()
    except Exception:
      pass


class _LogTap(logging.Handler):
  def __init__(self, env):
    logging.Handler.__init__(self, level=logging.DEBUG)
    self.env = env

  def emit(self, record):
    try:
      msg = record.getMessage()
    except Exception:
      msg = str(record.msg)
    self.env.logs.append((record.levelname, record.name, msg))
    if self.env.log_hook is not None:
      self.env.log_hook(record.levelname, record.name, msg)
    if self.env.log_yields is not None:
      # a log handler doing cooperative I/O (socket / syslog handler under gevent): the greenlet
      # that logs is suspended and everything else that is runnable goes first
      import gevent
      cur = gevent.getcurrent()
      ok = self.env.log_yield_ok
      if cur is not gevent.get_hub() and (ok is None or ok()):
        self.env.log_yields += 1
        gevent.sleep(self.env.log_yield_delay)


def repo_root():
  return os.environ.get('VERIF_REPO', '/repo')


def install(start=None):
  """Install the virtual loop and clock.  Idempotent per process."""
  global _ENV
  if _ENV is not None:
    return _ENV
  if 'scales' in sys.modules or 'gevent.hub' in sys.modules and \
      sys.modules['gevent.hub'].get_hub_if_exists() is not None:
    raise RuntimeError('boot.install() must run before scales is imported '
                       'and before the gevent hub exists')
  repo = repo_root()
  if repo in sys.path:
    sys.path.remove(repo)
  sys.path.insert(0, repo)

  clock = VClock(1700000000.0 if start is None else start)
  loop = VLoop(clock)
  _time.time = clock.time

  def blocking_sleep(secs):
    # a non-cooperative sleep in the code under test: the clock moves on, no greenlet runs
    clock.now += max(0.0, float(secs))
    blocking_sleeps.append(float(secs))
  blocking_sleeps = []
  _time.sleep = blocking_sleep

  import gevent._hub_local as hl
  hl.set_loop(loop)
  import gevent
  import gevent.hub

  env = Env(clock, loop, repo)
  env.blocking_sleeps = blocking_sleeps     # durations of time.sleep() calls made inside the virtual world

  def print_exception(hub, context, t, v, tb):
    import traceback
    env.errors.append({
      'vt': clock.now,
      'context': repr(context)[:200],
      'type': getattr(t, '__name__', str(t)),
      'value': str(v)[:300],
      'tb': ''.join(traceback.format_tb(tb)[-6:]) if tb is not None else '',
    })
  gevent.hub.Hub.print_exception = print_exception

  hub = gevent.get_hub()
  assert hub.loop is loop, 'virtual loop was not adopted by the hub'

  import scales  # noqa: F401  (bind time_source defaults to the virtual clock)
  here = os.path.realpath(scales.__file__)
  if not here.startswith(os.path.realpath(repo) + os.sep):
    raise RuntimeError('scales imported from %s, expected under %s' % (here, repo))
  from scales import timer_queue
  assert timer_queue.GLOBAL_TIMER_QUEUE._time_source.__self__ is clock

  lg = logging.getLogger('scales')
  lg.setLevel(logging.INFO)
  lg.propagate = False
  lg.addHandler(_LogTap(env))
  # kazoo logs go nowhere
  logging.getLogger('kazoo').addHandler(logging.NullHandler())
  logging.getLogger('kazoo').propagate = False
  logging.getLogger('thrift').addHandler(logging.NullHandler())
  logging.getLogger('thrift').propagate = False
  logging.getLogger().addHandler(logging.NullHandler())

  # third-party deps that are installed offline into .deps go LAST on sys.path
  deps = os.path.join(os.path.dirname(os.path.dirname(os.path.abspath(__file__))), '.deps')
  if os.path.isdir(deps) and deps not in sys.path:
    sys.path.append(deps)

  _ENV = env
  return env


# --------------------------------------------------------------------------
# reach counters on anchor functions (sys.monitoring, PY_START, local events)

class Reach(object):
  TOOL = 3

  def __init__(self):
    self.counts = {}
    self._codes = {}
    self._on = False

  @staticmethod
  def _find_code(obj, path):
    """obj: module; path: 'Class.method' or 'Class.method.inner_function'
    (decorators with __wrapped__, static/class methods and properties are
    looked through; private names must be given mangled)."""
    import inspect
    cur = obj
    for p in path.split('.'):
      nxt = None
      if inspect.iscode(cur):
        for c in cur.co_consts:
          if inspect.iscode(c) and c.co_name == p:
            nxt = c
            break
      else:
        nxt = getattr(cur, '__dict__', {}).get(p)
      if nxt is None:
        return None
      if isinstance(nxt, (staticmethod, classmethod)):
        nxt = nxt.__func__
      if isinstance(nxt, property):
        nxt = nxt.fget
      while hasattr(nxt, '__wrapped__'):
        nxt = nxt.__wrapped__
      if inspect.isfunction(nxt):
        nxt = nxt.__code__
      cur = nxt
    return cur if inspect.iscode(cur) else None

  def watch(self, anchors):
    """anchors: iterable of 'module:Qual.name' strings."""
    import importlib
    mon = sys.monitoring
    if not self._on:
      try:
        mon.use_tool_id(self.TOOL, 'verif-reach')
      except ValueError:
        pass
      mon.register_callback(self.TOOL, mon.events.PY_START, self._cb)
      self._on = True
    missing = []
    for a in anchors:
      modname, qual = a.split(':')
      try:
        mod = importlib.import_module(modname)
        code = self._find_code(mod, qual)
      except Exception:
        code = None
      if code is None:
        missing.append(a)
        continue
      self.counts.setdefault(a, 0)
      self._codes[code] = a
      mon.set_local_events(self.TOOL, code, mon.events.PY_START)
    return missing

  def _cb(self, code, offset):
    a = self._codes.get(code)
    if a is not None:
      self.counts[a] += 1


REACH = Reach()


# --------------------------------------------------------------------------
# line reach over the code under test (sys.monitoring LINE events; each location
# reports once and is then disabled, so the cost is paid on first execution only)

class LineReach(object):
  TOOL = 4

  def __init__(self):
    self.lines = {}      # path relative to the repo root -> set of line numbers
    self._prefix = None

  def start(self):
    mon = sys.monitoring
    self._prefix = os.path.join(os.path.realpath(repo_root()), 'scales') + os.sep
    try:
      mon.use_tool_id(self.TOOL, 'verif-lines')
    except ValueError:
      return False
    mon.register_callback(self.TOOL, mon.events.LINE, self._cb)
    mon.set_events(self.TOOL, mon.events.LINE)
    return True

  def _cb(self, code, line):
    fn = code.co_filename
    if fn.startswith(self._prefix):
      self.lines.setdefault(fn[len(self._prefix) - 7:], set()).add(line)
    return sys.monitoring.DISABLE

  def dump(self):
    return {k: sorted(v) for k, v in self.lines.items()}


LINES = LineReach()


def executable_lines(path):
  """Line numbers that carry code in a source file (from the compiled code objects;
  module/class/def header lines and docstrings count as they do for the interpreter)."""
  import inspect
  with open(path, 'rb') as f:
    top = compile(f.read(), path, 'exec')
  out, todo = set(), [top]
  while todo:
    c = todo.pop()
    for _s, _e, ln in c.co_lines():
      if ln is not None and ln > 0:
        out.add(ln)
    todo.extend(k for k in c.co_consts if inspect.iscode(k))
  return out
