#
# Hand-written in the shape the Thrift compiler (0.13, "py:dynamic") emits.
# IDL equivalent:
#   service VerifService {
#     string echo(1: string s), i64 add(1: i32 a, 2: i64 b), Pair swap(1: Pair p),
#     string lock(1: string key, 2: i32 timeout), string tail(1: string s), oneway void notify(1: string s),
#     string concat(2: string first, 1: string second),      // a parameter added in front later: ids not ascending
#     bool flag(1: bool b, 2: double d), void ping(),
#     string fail(1: string why) throws (1: VerifError err),
#     void vfail(1: string why) throws (1: VerifError err),
#     binary blob(1: binary b), list<string> names(1: map<string,i32> m) }
#
from thrift.Thrift import TType, TMessageType, TException, TApplicationException
from thrift.protocol.TBase import TBase, TExceptionBase
from thrift.TRecursive import fix_spec
from thrift.Thrift import TProcessor
from thrift.transport import TTransport
import logging
from .ttypes import *
all_structs = []


class Iface(object):
    def echo(self, s):
        pass

    def add(self, a, b):
        pass

    def lock(self, key, timeout):
        pass

    def tail(self, s):
        pass

    def concat(self, first, second):
        pass

    def notify(self, s):
        pass

    def swap(self, p):
        pass

    def flag(self, b, d):
        pass

    def ping(self):
        pass

    def fail(self, why):
        pass

    def vfail(self, why):
        pass

    def blob(self, b):
        pass

    def names(self, m):
        pass


class Processor(Iface, TProcessor):
    def __init__(self, handler):
        self._handler = handler
        self._processMap = {}
        self._processMap["echo"] = Processor.process_echo
        self._processMap["add"] = Processor.process_add
        self._processMap["lock"] = Processor.process_lock
        self._processMap["tail"] = Processor.process_tail
        self._processMap["concat"] = Processor.process_concat
        self._processMap["notify"] = Processor.process_notify
        self._processMap["swap"] = Processor.process_swap
        self._processMap["flag"] = Processor.process_flag
        self._processMap["ping"] = Processor.process_ping
        self._processMap["fail"] = Processor.process_fail
        self._processMap["vfail"] = Processor.process_vfail
        self._processMap["blob"] = Processor.process_blob
        self._processMap["names"] = Processor.process_names
        self._on_message_begin = None

    def on_message_begin(self, func):
        self._on_message_begin = func

    def process(self, iprot, oprot):
        (name, type, seqid) = iprot.readMessageBegin()
        if self._on_message_begin:
            self._on_message_begin(name, type, seqid)
        if name not in self._processMap:
            iprot.skip(TType.STRUCT)
            iprot.readMessageEnd()
            x = TApplicationException(TApplicationException.UNKNOWN_METHOD, 'Unknown function %s' % (name))
            oprot.writeMessageBegin(name, TMessageType.EXCEPTION, seqid)
            x.write(oprot)
            oprot.writeMessageEnd()
            oprot.trans.flush()
            return
        else:
            self._processMap[name](self, seqid, iprot, oprot)
        return True

    def process_echo(self, seqid, iprot, oprot):
        args = echo_args()
        args.read(iprot)
        iprot.readMessageEnd()
        result = echo_result()
        try:
            result.success = self._handler.echo(args.s)
            msg_type = TMessageType.REPLY
        except TTransport.TTransportException:
            raise
        except TApplicationException as ex:
            logging.exception('TApplication exception in handler')
            msg_type = TMessageType.EXCEPTION
            result = ex
        except Exception:
            logging.exception('Unexpected exception in handler')
            msg_type = TMessageType.EXCEPTION
            result = TApplicationException(TApplicationException.INTERNAL_ERROR, 'Internal error')
        oprot.writeMessageBegin("echo", msg_type, seqid)
        result.write(oprot)
        oprot.writeMessageEnd()
        oprot.trans.flush()

    def process_tail(self, seqid, iprot, oprot):
        args = tail_args()
        args.read(iprot)
        iprot.readMessageEnd()
        result = tail_result()
        try:
            result.success = self._handler.tail(args.s)
            msg_type = TMessageType.REPLY
        except TTransport.TTransportException:
            raise
        except TApplicationException as ex:
            logging.exception('TApplication exception in handler')
            msg_type = TMessageType.EXCEPTION
            result = ex
        except Exception:
            logging.exception('Unexpected exception in handler')
            msg_type = TMessageType.EXCEPTION
            result = TApplicationException(TApplicationException.INTERNAL_ERROR, 'Internal error')
        oprot.writeMessageBegin("tail", msg_type, seqid)
        result.write(oprot)
        oprot.writeMessageEnd()
        oprot.trans.flush()

    def process_notify(self, seqid, iprot, oprot):
        args = notify_args()
        args.read(iprot)
        iprot.readMessageEnd()
        try:
            self._handler.notify(args.s)
        except TTransport.TTransportException:
            raise
        except Exception:
            logging.exception('Exception in oneway handler')

    def process_add(self, seqid, iprot, oprot):
        args = add_args()
        args.read(iprot)
        iprot.readMessageEnd()
        result = add_result()
        try:
            result.success = self._handler.add(args.a, args.b)
            msg_type = TMessageType.REPLY
        except TTransport.TTransportException:
            raise
        except TApplicationException as ex:
            logging.exception('TApplication exception in handler')
            msg_type = TMessageType.EXCEPTION
            result = ex
        except Exception:
            logging.exception('Unexpected exception in handler')
            msg_type = TMessageType.EXCEPTION
            result = TApplicationException(TApplicationException.INTERNAL_ERROR, 'Internal error')
        oprot.writeMessageBegin("add", msg_type, seqid)
        result.write(oprot)
        oprot.writeMessageEnd()
        oprot.trans.flush()

    def process_lock(self, seqid, iprot, oprot):
        args = lock_args()
        args.read(iprot)
        iprot.readMessageEnd()
        result = lock_result()
        try:
            result.success = self._handler.lock(args.key, args.timeout)
            msg_type = TMessageType.REPLY
        except TTransport.TTransportException:
            raise
        except TApplicationException as ex:
            logging.exception('TApplication exception in handler')
            msg_type = TMessageType.EXCEPTION
            result = ex
        except Exception:
            logging.exception('Unexpected exception in handler')
            msg_type = TMessageType.EXCEPTION
            result = TApplicationException(TApplicationException.INTERNAL_ERROR, 'Internal error')
        oprot.writeMessageBegin("lock", msg_type, seqid)
        result.write(oprot)
        oprot.writeMessageEnd()
        oprot.trans.flush()

    def process_concat(self, seqid, iprot, oprot):
        args = concat_args()
        args.read(iprot)
        iprot.readMessageEnd()
        result = concat_result()
        try:
            result.success = self._handler.concat(args.first, args.second)
            msg_type = TMessageType.REPLY
        except TTransport.TTransportException:
            raise
        except TApplicationException as ex:
            logging.exception('TApplication exception in handler')
            msg_type = TMessageType.EXCEPTION
            result = ex
        except Exception:
            logging.exception('Unexpected exception in handler')
            msg_type = TMessageType.EXCEPTION
            result = TApplicationException(TApplicationException.INTERNAL_ERROR, 'Internal error')
        oprot.writeMessageBegin("concat", msg_type, seqid)
        result.write(oprot)
        oprot.writeMessageEnd()
        oprot.trans.flush()

    def process_swap(self, seqid, iprot, oprot):
        args = swap_args()
        args.read(iprot)
        iprot.readMessageEnd()
        result = swap_result()
        try:
            result.success = self._handler.swap(args.p)
            msg_type = TMessageType.REPLY
        except TTransport.TTransportException:
            raise
        except TApplicationException as ex:
            logging.exception('TApplication exception in handler')
            msg_type = TMessageType.EXCEPTION
            result = ex
        except Exception:
            logging.exception('Unexpected exception in handler')
            msg_type = TMessageType.EXCEPTION
            result = TApplicationException(TApplicationException.INTERNAL_ERROR, 'Internal error')
        oprot.writeMessageBegin("swap", msg_type, seqid)
        result.write(oprot)
        oprot.writeMessageEnd()
        oprot.trans.flush()

    def process_flag(self, seqid, iprot, oprot):
        args = flag_args()
        args.read(iprot)
        iprot.readMessageEnd()
        result = flag_result()
        try:
            result.success = self._handler.flag(args.b, args.d)
            msg_type = TMessageType.REPLY
        except TTransport.TTransportException:
            raise
        except TApplicationException as ex:
            logging.exception('TApplication exception in handler')
            msg_type = TMessageType.EXCEPTION
            result = ex
        except Exception:
            logging.exception('Unexpected exception in handler')
            msg_type = TMessageType.EXCEPTION
            result = TApplicationException(TApplicationException.INTERNAL_ERROR, 'Internal error')
        oprot.writeMessageBegin("flag", msg_type, seqid)
        result.write(oprot)
        oprot.writeMessageEnd()
        oprot.trans.flush()

    def process_ping(self, seqid, iprot, oprot):
        args = ping_args()
        args.read(iprot)
        iprot.readMessageEnd()
        result = ping_result()
        try:
            self._handler.ping()
            msg_type = TMessageType.REPLY
        except TTransport.TTransportException:
            raise
        except TApplicationException as ex:
            logging.exception('TApplication exception in handler')
            msg_type = TMessageType.EXCEPTION
            result = ex
        except Exception:
            logging.exception('Unexpected exception in handler')
            msg_type = TMessageType.EXCEPTION
            result = TApplicationException(TApplicationException.INTERNAL_ERROR, 'Internal error')
        oprot.writeMessageBegin("ping", msg_type, seqid)
        result.write(oprot)
        oprot.writeMessageEnd()
        oprot.trans.flush()

    def process_fail(self, seqid, iprot, oprot):
        args = fail_args()
        args.read(iprot)
        iprot.readMessageEnd()
        result = fail_result()
        try:
            result.success = self._handler.fail(args.why)
            msg_type = TMessageType.REPLY
        except TTransport.TTransportException:
            raise
        except VerifError as err:
            msg_type = TMessageType.REPLY
            result.err = err
        except OtherError as other:
            msg_type = TMessageType.REPLY
            result.other = other
        except ThirdError as third:
            msg_type = TMessageType.REPLY
            result.third = third
        except TApplicationException as ex:
            logging.exception('TApplication exception in handler')
            msg_type = TMessageType.EXCEPTION
            result = ex
        except Exception:
            logging.exception('Unexpected exception in handler')
            msg_type = TMessageType.EXCEPTION
            result = TApplicationException(TApplicationException.INTERNAL_ERROR, 'Internal error')
        oprot.writeMessageBegin("fail", msg_type, seqid)
        result.write(oprot)
        oprot.writeMessageEnd()
        oprot.trans.flush()

    def process_vfail(self, seqid, iprot, oprot):
        args = vfail_args()
        args.read(iprot)
        iprot.readMessageEnd()
        result = vfail_result()
        try:
            self._handler.vfail(args.why)
            msg_type = TMessageType.REPLY
        except TTransport.TTransportException:
            raise
        except VerifError as err:
            msg_type = TMessageType.REPLY
            result.err = err
        except OtherError as other:
            msg_type = TMessageType.REPLY
            result.other = other
        except TApplicationException as ex:
            logging.exception('TApplication exception in handler')
            msg_type = TMessageType.EXCEPTION
            result = ex
        except Exception:
            logging.exception('Unexpected exception in handler')
            msg_type = TMessageType.EXCEPTION
            result = TApplicationException(TApplicationException.INTERNAL_ERROR, 'Internal error')
        oprot.writeMessageBegin("vfail", msg_type, seqid)
        result.write(oprot)
        oprot.writeMessageEnd()
        oprot.trans.flush()

    def process_blob(self, seqid, iprot, oprot):
        args = blob_args()
        args.read(iprot)
        iprot.readMessageEnd()
        result = blob_result()
        try:
            result.success = self._handler.blob(args.b)
            msg_type = TMessageType.REPLY
        except TTransport.TTransportException:
            raise
        except TApplicationException as ex:
            logging.exception('TApplication exception in handler')
            msg_type = TMessageType.EXCEPTION
            result = ex
        except Exception:
            logging.exception('Unexpected exception in handler')
            msg_type = TMessageType.EXCEPTION
            result = TApplicationException(TApplicationException.INTERNAL_ERROR, 'Internal error')
        oprot.writeMessageBegin("blob", msg_type, seqid)
        result.write(oprot)
        oprot.writeMessageEnd()
        oprot.trans.flush()

    def process_names(self, seqid, iprot, oprot):
        args = names_args()
        args.read(iprot)
        iprot.readMessageEnd()
        result = names_result()
        try:
            result.success = self._handler.names(args.m)
            msg_type = TMessageType.REPLY
        except TTransport.TTransportException:
            raise
        except TApplicationException as ex:
            logging.exception('TApplication exception in handler')
            msg_type = TMessageType.EXCEPTION
            result = ex
        except Exception:
            logging.exception('Unexpected exception in handler')
            msg_type = TMessageType.EXCEPTION
            result = TApplicationException(TApplicationException.INTERNAL_ERROR, 'Internal error')
        oprot.writeMessageBegin("names", msg_type, seqid)
        result.write(oprot)
        oprot.writeMessageEnd()
        oprot.trans.flush()

# HELPER FUNCTIONS AND STRUCTURES


class echo_args(TBase):
    __slots__ = ('s',)

    def __init__(self, s=None):
        self.s = s


all_structs.append(echo_args)
echo_args.thrift_spec = (
    None,  # 0
    (1, TType.STRING, 's', 'UTF8', None, ),  # 1
)


class echo_result(TBase):
    __slots__ = ('success',)

    def __init__(self, success=None):
        self.success = success


all_structs.append(echo_result)
echo_result.thrift_spec = (
    (0, TType.STRING, 'success', 'UTF8', None, ),  # 0
)


class tail_args(TBase):
    __slots__ = ('s',)

    def __init__(self, s=None):
        self.s = s


all_structs.append(tail_args)
tail_args.thrift_spec = (
    None,  # 0
    (1, TType.STRING, 's', 'UTF8', None, ),  # 1
)


class notify_args(TBase):
    __slots__ = ('s',)

    def __init__(self, s=None):
        self.s = s


all_structs.append(notify_args)
notify_args.thrift_spec = (
    None,  # 0
    (1, TType.STRING, 's', 'UTF8', None, ),  # 1
)


class tail_result(TBase):
    __slots__ = ('success',)

    def __init__(self, success=None):
        self.success = success


all_structs.append(tail_result)
tail_result.thrift_spec = (
    (0, TType.STRING, 'success', 'UTF8', None, ),  # 0
)


class add_args(TBase):
    __slots__ = ('a', 'b')

    def __init__(self, a=None, b=None):
        self.a = a
        self.b = b


all_structs.append(add_args)
add_args.thrift_spec = (
    None,  # 0
    (1, TType.I32, 'a', None, None, ),  # 1
    (2, TType.I64, 'b', None, None, ),  # 2
)


class add_result(TBase):
    __slots__ = ('success',)

    def __init__(self, success=None):
        self.success = success


all_structs.append(add_result)
add_result.thrift_spec = (
    (0, TType.I64, 'success', None, None, ),  # 0
)


class lock_args(TBase):
    __slots__ = ('key', 'timeout')

    def __init__(self, key=None, timeout=None):
        self.key = key
        self.timeout = timeout


all_structs.append(lock_args)
lock_args.thrift_spec = (
    None,  # 0
    (1, TType.STRING, 'key', 'UTF8', None, ),  # 1
    (2, TType.I32, 'timeout', None, None, ),  # 2
)


class lock_result(TBase):
    __slots__ = ('success',)

    def __init__(self, success=None):
        self.success = success


all_structs.append(lock_result)
lock_result.thrift_spec = (
    (0, TType.STRING, 'success', 'UTF8', None, ),  # 0
)


class concat_args(TBase):
    __slots__ = ('first', 'second')

    def __init__(self, first=None, second=None):
        self.first = first
        self.second = second


all_structs.append(concat_args)
concat_args.thrift_spec = (
    None,  # 0
    (1, TType.STRING, 'second', 'UTF8', None, ),  # 1
    (2, TType.STRING, 'first', 'UTF8', None, ),  # 2
)


class concat_result(TBase):
    __slots__ = ('success',)

    def __init__(self, success=None):
        self.success = success


all_structs.append(concat_result)
concat_result.thrift_spec = (
    (0, TType.STRING, 'success', 'UTF8', None, ),  # 0
)


class swap_args(TBase):
    __slots__ = ('p',)

    def __init__(self, p=None):
        self.p = p


all_structs.append(swap_args)
swap_args.thrift_spec = (
    None,  # 0
    (1, TType.STRUCT, 'p', [Pair, None], None, ),  # 1
)


class swap_result(TBase):
    __slots__ = ('success',)

    def __init__(self, success=None):
        self.success = success


all_structs.append(swap_result)
swap_result.thrift_spec = (
    (0, TType.STRUCT, 'success', [Pair, None], None, ),  # 0
)


class flag_args(TBase):
    __slots__ = ('b', 'd')

    def __init__(self, b=None, d=None):
        self.b = b
        self.d = d


all_structs.append(flag_args)
flag_args.thrift_spec = (
    None,  # 0
    (1, TType.BOOL, 'b', None, None, ),  # 1
    (2, TType.DOUBLE, 'd', None, None, ),  # 2
)


class flag_result(TBase):
    __slots__ = ('success',)

    def __init__(self, success=None):
        self.success = success


all_structs.append(flag_result)
flag_result.thrift_spec = (
    (0, TType.BOOL, 'success', None, None, ),  # 0
)


class ping_args(TBase):
    __slots__ = ()

    def __init__(self):
        pass


all_structs.append(ping_args)
ping_args.thrift_spec = (
)


class ping_result(TBase):
    __slots__ = ()

    def __init__(self):
        pass


all_structs.append(ping_result)
ping_result.thrift_spec = (
)


class fail_args(TBase):
    __slots__ = ('why',)

    def __init__(self, why=None):
        self.why = why


all_structs.append(fail_args)
fail_args.thrift_spec = (
    None,  # 0
    (1, TType.STRING, 'why', 'UTF8', None, ),  # 1
)


class fail_result(TBase):
    __slots__ = ('success', 'err', 'other', 'third')

    def __init__(self, success=None, err=None, other=None, third=None):
        self.success = success
        self.err = err
        self.other = other
        self.third = third


all_structs.append(fail_result)
fail_result.thrift_spec = (
    (0, TType.STRING, 'success', 'UTF8', None, ),  # 0
    (1, TType.STRUCT, 'err', [VerifError, None], None, ),  # 1
    (2, TType.STRUCT, 'other', [OtherError, None], None, ),  # 2
    None,  # 3  (the IDL skips an id: throws (1: VerifError err, 2: OtherError other, 4: ThirdError third))
    (4, TType.STRUCT, 'third', [ThirdError, None], None, ),  # 4
)


class vfail_args(TBase):
    __slots__ = ('why',)

    def __init__(self, why=None):
        self.why = why


all_structs.append(vfail_args)
vfail_args.thrift_spec = (
    None,  # 0
    (1, TType.STRING, 'why', 'UTF8', None, ),  # 1
)


class vfail_result(TBase):
    __slots__ = ('err', 'other')

    def __init__(self, err=None, other=None):
        self.err = err
        self.other = other


all_structs.append(vfail_result)
vfail_result.thrift_spec = (
    None,  # 0
    (1, TType.STRUCT, 'err', [VerifError, None], None, ),  # 1
    (2, TType.STRUCT, 'other', [OtherError, None], None, ),  # 2
)


class blob_args(TBase):
    __slots__ = ('b',)

    def __init__(self, b=None):
        self.b = b


all_structs.append(blob_args)
blob_args.thrift_spec = (
    None,  # 0
    (1, TType.STRING, 'b', 'BINARY', None, ),  # 1
)


class blob_result(TBase):
    __slots__ = ('success',)

    def __init__(self, success=None):
        self.success = success


all_structs.append(blob_result)
blob_result.thrift_spec = (
    (0, TType.STRING, 'success', 'BINARY', None, ),  # 0
)


class names_args(TBase):
    __slots__ = ('m',)

    def __init__(self, m=None):
        self.m = m


all_structs.append(names_args)
names_args.thrift_spec = (
    None,  # 0
    (1, TType.MAP, 'm', (TType.STRING, 'UTF8', TType.I32, None, False), None, ),  # 1
)


class names_result(TBase):
    __slots__ = ('success',)

    def __init__(self, success=None):
        self.success = success


all_structs.append(names_result)
names_result.thrift_spec = (
    (0, TType.LIST, 'success', (TType.STRING, 'UTF8', False), None, ),  # 0
)

fix_spec(all_structs)
del all_structs
