#
# Hand-written in the shape the Thrift compiler (0.13, "py:dynamic") emits:
# no thrift compiler is available offline.  IDL equivalent:
#
#   struct Pair { 1: string name, 2: i32 n, 3: optional binary blob,
#                 4: list<i32> nums, 5: map<string,string> kv }
#   exception VerifError { 1: string why, 2: i32 code }
#   exception OtherError { 1: string detail, 2: i64 n }
#   exception ThirdError { 1: string tag }      // emitted the way compilers from 0.14 on do: immutable
#
from thrift.Thrift import TType, TException
from thrift.protocol.TBase import TBase, TExceptionBase, TFrozenExceptionBase
from thrift.TRecursive import fix_spec

all_structs = []


class Pair(TBase):
    __slots__ = ('name', 'n', 'blob', 'nums', 'kv')

    def __init__(self, name=None, n=None, blob=None, nums=None, kv=None):
        self.name = name
        self.n = n
        self.blob = blob
        self.nums = nums
        self.kv = kv


all_structs.append(Pair)
Pair.thrift_spec = (
    None,  # 0
    (1, TType.STRING, 'name', 'UTF8', None, ),  # 1
    (2, TType.I32, 'n', None, None, ),  # 2
    (3, TType.STRING, 'blob', 'BINARY', None, ),  # 3
    (4, TType.LIST, 'nums', (TType.I32, None, False), None, ),  # 4
    (5, TType.MAP, 'kv', (TType.STRING, 'UTF8', TType.STRING, 'UTF8', False), None, ),  # 5
)


class VerifError(TExceptionBase):
    __slots__ = ('why', 'code')

    def __init__(self, why=None, code=None):
        self.why = why
        self.code = code

    def __str__(self):
        return repr(self)

    def __repr__(self):
        return 'VerifError(why=%r, code=%r)' % (self.why, self.code)

    def __hash__(self):
        return hash((self.why, self.code))


all_structs.append(VerifError)
VerifError.thrift_spec = (
    None,  # 0
    (1, TType.STRING, 'why', 'UTF8', None, ),  # 1
    (2, TType.I32, 'code', None, None, ),  # 2
)


class OtherError(TExceptionBase):
    __slots__ = ('detail', 'n')

    def __init__(self, detail=None, n=None):
        self.detail = detail
        self.n = n

    def __str__(self):
        return repr(self)

    def __repr__(self):
        return 'OtherError(detail=%r, n=%r)' % (self.detail, self.n)

    def __hash__(self):
        return hash((self.detail, self.n))


all_structs.append(OtherError)
OtherError.thrift_spec = (
    None,  # 0
    (1, TType.STRING, 'detail', 'UTF8', None, ),  # 1
    (2, TType.I64, 'n', None, None, ),  # 2
)


class ThirdError(TFrozenExceptionBase):
    __slots__ = ('tag',)

    def __init__(self, tag=None):
        super(ThirdError, self).__setattr__('tag', tag)

    def __setattr__(self, *args):
        raise TypeError("can't modify immutable instance")

    def __delattr__(self, *args):
        raise TypeError("can't modify immutable instance")

    def __str__(self):
        return repr(self)

    def __repr__(self):
        return 'ThirdError(tag=%r)' % (self.tag,)

    def __hash__(self):
        return hash(self.tag)


all_structs.append(ThirdError)
ThirdError.thrift_spec = (
    None,  # 0
    (1, TType.STRING, 'tag', 'UTF8', None, ),  # 1
)
fix_spec(all_structs)
del all_structs
