__all__ = ['ttypes', 'VerifService', 'ExtService']
