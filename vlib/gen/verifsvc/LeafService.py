#
# Hand-written in the shape the Thrift compiler emits for
#   service LeafService extends ExtService { string leaf(1: string s) }   (three levels: Leaf -> Ext -> Verif)
#
from thrift.Thrift import TType, TMessageType, TException, TApplicationException
from thrift.protocol.TBase import TBase, TExceptionBase
from thrift.TRecursive import fix_spec
from thrift.Thrift import TProcessor
from thrift.transport import TTransport
import logging
from . import ExtService
from .ttypes import *
all_structs = []


class Iface(ExtService.Iface):
    def leaf(self, s):
        pass


class Processor(ExtService.Processor, Iface, TProcessor):
    def __init__(self, handler):
        ExtService.Processor.__init__(self, handler)
        self._processMap["leaf"] = Processor.process_leaf

    def process(self, iprot, oprot):
        return ExtService.Processor.process(self, iprot, oprot)

    def process_leaf(self, seqid, iprot, oprot):
        args = leaf_args()
        args.read(iprot)
        iprot.readMessageEnd()
        result = leaf_result()
        try:
            result.success = self._handler.leaf(args.s)
            msg_type = TMessageType.REPLY
        except TTransport.TTransportException:
            raise
        except TApplicationException as ex:
            msg_type = TMessageType.EXCEPTION
            result = ex
        except Exception:
            msg_type = TMessageType.EXCEPTION
            result = TApplicationException(TApplicationException.INTERNAL_ERROR, 'Internal error')
        oprot.writeMessageBegin("leaf", msg_type, seqid)
        result.write(oprot)
        oprot.writeMessageEnd()
        oprot.trans.flush()


class leaf_args(TBase):
    __slots__ = ('s',)

    def __init__(self, s=None):
        self.s = s


all_structs.append(leaf_args)
leaf_args.thrift_spec = (
    None,  # 0
    (1, TType.STRING, 's', 'UTF8', None, ),  # 1
)


class leaf_result(TBase):
    __slots__ = ('success',)

    def __init__(self, success=None):
        self.success = success


all_structs.append(leaf_result)
leaf_result.thrift_spec = (
    (0, TType.STRING, 'success', 'UTF8', None, ),  # 0
)
fix_spec(all_structs)
del all_structs
