#
# Hand-written in the shape the Thrift compiler emits for
#   service Ext2Service extends VerifService { string extra(2: i32 n, 3: string s) }
# (same method name as ExtService.extra, different argument struct)
#
from thrift.Thrift import TType, TMessageType, TException, TApplicationException
from thrift.protocol.TBase import TBase, TExceptionBase
from thrift.TRecursive import fix_spec
from thrift.Thrift import TProcessor
from thrift.transport import TTransport
import logging
from . import VerifService
from .ttypes import *
all_structs = []


class Iface(VerifService.Iface):
    def extra(self, n, s):
        pass


class Processor(VerifService.Processor, Iface, TProcessor):
    def __init__(self, handler):
        VerifService.Processor.__init__(self, handler)
        self._processMap["extra"] = Processor.process_extra

    def process(self, iprot, oprot):
        return VerifService.Processor.process(self, iprot, oprot)

    def process_extra(self, seqid, iprot, oprot):
        args = extra_args()
        args.read(iprot)
        iprot.readMessageEnd()
        result = extra_result()
        try:
            result.success = self._handler.extra(args.n, args.s)
            msg_type = TMessageType.REPLY
        except TTransport.TTransportException:
            raise
        except TApplicationException as ex:
            msg_type = TMessageType.EXCEPTION
            result = ex
        except Exception:
            msg_type = TMessageType.EXCEPTION
            result = TApplicationException(TApplicationException.INTERNAL_ERROR, 'Internal error')
        oprot.writeMessageBegin("extra", msg_type, seqid)
        result.write(oprot)
        oprot.writeMessageEnd()
        oprot.trans.flush()


class extra_args(TBase):
    __slots__ = ('n', 's',)

    def __init__(self, n=None, s=None):
        self.n = n
        self.s = s


all_structs.append(extra_args)
extra_args.thrift_spec = (
    None,  # 0
    None,  # 1
    (2, TType.I32, 'n', None, None, ),  # 2
    (3, TType.STRING, 's', 'UTF8', None, ),  # 3
)


class extra_result(TBase):
    __slots__ = ('success',)

    def __init__(self, success=None):
        self.success = success


all_structs.append(extra_result)
extra_result.thrift_spec = (
    (0, TType.STRING, 'success', 'UTF8', None, ),  # 0
)
fix_spec(all_structs)
del all_structs
