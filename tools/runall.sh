#!/bin/bash
# tools/runall.sh [tier] [seed]  - run every check once, print one line per check
cd "$(dirname "$0")/.."
tier=${1:-quick}; seed=${2:-0}
for i in 01 02 03 04 05 06 07 08 09 10 11 12 13 14 15 16 17 18 19 20; do
  s=$(date +%s.%N)
  out=$(VERIF_SEED=$seed ./check C$i --tier $tier 2>&1); rc=$?
  e=$(date +%s.%N)
  printf "C%s rc=%d %5.1fs %s\n" $i $rc $(echo "$e - $s" | bc) "$(echo "$out" | tail -1 | cut -c1-160)"
done
