#!/usr/bin/env python3
"""Union of the source lines of /repo/scales reached by the checks:
  tools/linecov.py run [tier] [seed]   run every check with VERIF_LINES_DUMP, then report
  tools/linecov.py report              report from the last dump (linecov/ under /verif, git-ignored)
Prints, per source file, executable / reached lines and the ranges no check reached."""
import glob, json, os, subprocess, sys
V = os.path.dirname(os.path.dirname(os.path.abspath(__file__)))
sys.path.insert(0, V)
D = os.path.join(V, 'linecov')


def report():
  from vlib import boot
  from vlib.framework import _ranges
  root = os.path.realpath(boot.repo_root())
  union, per = {}, {}
  for f in sorted(glob.glob(os.path.join(D, '*.json'))):
    cid = os.path.basename(f).split('-')[0]
    for k, v in json.load(open(f)).items():
      union.setdefault(k, set()).update(v)
      for ln in v:
        per.setdefault((k, ln), set()).add(cid)
  te = th = 0
  for dirpath, _d, files in sorted(os.walk(os.path.join(root, 'scales'))):
    for fn in sorted(files):
      if not fn.endswith('.py'):
        continue
      full = os.path.join(dirpath, fn)
      rel = os.path.relpath(full, root)
      ex = boot.executable_lines(full)
      hit = union.get(rel, set()) & ex
      te += len(ex); th += len(hit)
      if not ex:
        continue
      print('%-48s %4d/%4d  not reached: %s' % (rel, len(hit), len(ex), ' '.join(_ranges(ex - hit))))
  print('total %d/%d executable lines reached by at least one check' % (th, te))


if __name__ == '__main__':
  if sys.argv[1:2] == ['run']:
    tier = sys.argv[2] if len(sys.argv) > 2 else 'quick'
    seed = sys.argv[3] if len(sys.argv) > 3 else '0'
    for i in range(1, 21):
      subprocess.run([os.path.join(V, 'check'), 'C%02d' % i, '--tier', tier], cwd=V,
                     env=dict(os.environ, VERIF_SEED=seed, VERIF_LINES_DUMP=D), stdout=subprocess.DEVNULL)
  report()
