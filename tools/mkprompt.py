#!/usr/bin/env python3
"""Build the prompt for an independent seeded-change sub-agent (it gets only the
property text and its own scratch worktree; nothing from /verif):
  tools/mkprompt.py <round> <prop>   -> /tmp/prompt<round>-<prop>.txt, worktree /tmp/seed<round>-<prop>
"""
import glob, json, os, subprocess, sys
V = os.path.dirname(os.path.dirname(os.path.abspath(__file__)))
rnd, pid = sys.argv[1], sys.argv[2]
wt = '/tmp/seed%s-%s' % (rnd, pid)
prop = [json.loads(l) for l in open(os.path.join(V, 'properties.jsonl')) if json.loads(l)['id'] == pid][0]
prior = []
for m in sorted(glob.glob(os.path.join(V, 'seeded', '*', 'meta.json'))):
  d = json.load(open(m))
  if d.get('property') == pid:
    files = subprocess.run(['grep', '-h', '^+++ b/scales', os.path.join(os.path.dirname(m), 'patch.diff')],
                           capture_output=True, text=True).stdout.split()
    files = sorted({f[6:] for f in files if f.startswith('+++ b/') or f.startswith('b/')} | {f[2:] for f in files if f.startswith('b/')})
    prior.append((d['needs_to_manifest'], [f for f in files if f.startswith('scales')]))
T = open(os.path.join(V, 'tools', 'prompt_template.txt')).read()
ideas = '\n'.join(' - (%s) "%s"' % (', '.join(f) or 'scales', n) for n, f in prior)
out = T.replace('@WT@', wt).replace('@PID@', pid).replace('@TITLE@', prop['title']) \
       .replace('@STATEMENT@', prop['statement']).replace('@QUANT@', prop['quantifier']['text']) \
       .replace('@IDEAS@', ideas)
p = '/tmp/prompt%s-%s.txt' % (rnd, pid)
open(p, 'w').write(out)
if not os.path.isdir(wt):
  subprocess.check_call(['git', '-C', '/repo', 'worktree', 'add', '--detach', '-q', wt, 'HEAD'])
print(p, wt, len(prior), 'prior ideas')
