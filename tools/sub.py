#!/usr/bin/env python3
"""Newline-preserving exact text substitution: sub.py FILE  (reads OLD and NEW from files/args).
usage: sub.py file old new   (old/new use \n for line breaks; file's CRLF/LF is preserved)"""
import sys
f, old, new = sys.argv[1:4]
b = open(f, 'rb').read()
crlf = b'\r\n' in b
s = b.decode().replace('\r\n', '\n')
if s.count(old) != 1:
  print('pattern count = %d' % s.count(old)); sys.exit(1)
s = s.replace(old, new)
if crlf:
  s = s.replace('\n', '\r\n')
open(f, 'wb').write(s.encode())
