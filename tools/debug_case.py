#!/venv/bin/python
"""Run one case of a check in-process and drop into a user hook:
  tools/debug_case.py C11 thorough 1 5077 [hook.py]
The hook file is exec'd with env, check, res in scope."""
import os, sys
if os.environ.get('PYTHONHASHSEED') != '0':      # the runner's workers run with hash seed 0: same history only then
  os.environ['PYTHONHASHSEED'] = '0'
  os.execv(sys.executable, [sys.executable] + sys.argv)
V = os.path.dirname(os.path.dirname(os.path.abspath(__file__)))
sys.path.insert(0, V)
from vlib import framework as fw, boot
pid, tier, seed, idx = sys.argv[1], sys.argv[2], int(sys.argv[3]), int(sys.argv[4])
env = boot.install()
check = fw.load_check(pid)
fw.ensure_deps() if hasattr(fw, 'ensure_deps') else None
check.setup(env, tier)
rng = fw.case_rng(pid, seed, idx)
env.begin_case(rng, idx)
if os.environ.get('PRE'):
  exec(open(os.environ['PRE']).read())
res = check.run_case(env, rng, idx, tier)
print('violations:', [(v['kind'], v['msg'][:200]) for v in res.violations])
print('extra:', res.extra)
if len(sys.argv) > 5:
  exec(open(sys.argv[5]).read())
