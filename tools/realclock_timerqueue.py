#!/venv/bin/python
"""C10 on the REAL clock and gevent's real libev loop (no virtual time): a short
run of Schedule/cancel traffic against a fresh TimerQueue.  Only 'at most once',
'exactly once unless cancelled' and 'not early' are judged here; lateness depends
on machine load and is reported, never judged.  Prints one JSON line."""
import json, os, random, sys, time
sys.path.insert(0, os.environ.get('VERIF_REPO', '/repo'))
import gevent
from scales.timer_queue import TimerQueue

seed = int(sys.argv[1]) if len(sys.argv) > 1 else 0
rng = random.Random(seed)
res = rng.choice([0.01, 0.01, 0.05])
q = TimerQueue(resolution=res)
acts = []
def make(a):
  def run():
    a['runs'].append(time.time())
  return run
handles = []
def producer(n):
  for _ in range(n):
    k = rng.random()
    if k < 0.6 or not handles:
      T = time.time() + rng.choice([-0.01, 0.0, 0.003, 0.02, 0.05, 0.12]) * rng.random() * 2
      a = {'T': T, 'runs': [], 'cancel': None, 'sched': time.time()}
      acts.append(a)
      handles.append((a, q.Schedule(T, make(a))))
    elif k < 0.8:
      a, c = rng.choice(handles)
      if a['cancel'] is None:
        a['cancel'] = time.time()
      c()
    gevent.sleep(rng.choice([0, 0, 0.001, 0.004, 0.01]) * rng.random())
gs = [gevent.spawn(producer, 60) for _ in range(3)]
gevent.joinall(gs)
gevent.sleep(0.6)
out = {'seed': seed, 'resolution': res, 'actions': len(acts), 'ran': 0, 'twice': 0, 'early': 0, 'never': 0,
       'cancelled_ran': 0, 'max_late_ms': 0.0}
for a in acts:
  n = len(a['runs'])
  out['ran'] += n > 0
  out['twice'] += n > 1
  if n and a['runs'][0] < a['T'] - 1e-6:
    out['early'] += 1
  grid = -(-a['T'] // res) * res
  if a['cancel'] is not None and a['cancel'] < grid - 0.02 and n:
    out['cancelled_ran'] += 1          # cancelled well before its rounded deadline
  if a['cancel'] is None and n == 0:
    out['never'] += 1
  if n:
    out['max_late_ms'] = max(out['max_late_ms'], (a['runs'][0] - max(grid, a['sched'])) * 1000)
print(json.dumps(out))
