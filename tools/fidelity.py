#!/venv/bin/python
"""Fidelity anchor: a handful of transport-level scenarios run twice - over real
loopback TCP on gevent's real libev loop, and over vlib.simnet on the virtual
loop - must give the same observations.  A mismatch means the simulation
misrepresents the socket layer (harness bug), not a property violation.

  tools/fidelity.py            run both, compare, exit 0 iff all agree
  tools/fidelity.py real|sim   print one side's observations as JSON
"""
import json
import os
import subprocess
import sys

V = os.path.dirname(os.path.dirname(os.path.abspath(__file__)))
sys.path.insert(0, V)


def observe(side):
  if side == 'sim':
    from vlib import boot
    env = boot.install()
    from vlib import simnet
    net = simnet.Network(env)
    net.install()
  else:
    sys.path.insert(0, os.environ.get('VERIF_REPO', '/repo'))
    env = net = None
  import errno
  import gevent
  import struct
  from scales.scales_socket import ScalesSocket
  from scales.varz import VarzSocketWrapper
  obs = {}

  # ---- peers ---------------------------------------------------------------
  class Peer(object):
    """behaviour: list of steps per accepted connection:
       ('read', n) ('write', bytes) ('sleep', s) ('close',) ('reset',)"""
    def __init__(self, script):
      self.script = script
      self.accepted = 0
      if side == 'real':
        from gevent.server import StreamServer
        self.srv = StreamServer(('127.0.0.1', 0), self._handle)
        self.srv.start()
        self.host, self.port = '127.0.0.1', self.srv.server_port
      else:
        self.host, self.port = 'peer', 5000 + len(net.servers)
        outer = self

        class H(object):
          def __init__(self, conn):
            self.conn = conn
            outer.accepted += 1
            self.steps = list(outer.script)
            self.need = 0
            gevent.spawn(self.run)

          def on_data(self, conn):
            pass

          def run(self):
            for st in self.steps:
              if st[0] == 'read':
                while len(self.conn.c2s) - self.conn.consumed < st[1] and not self.conn.client_closed:
                  gevent.sleep(0.001)
                self.conn.consumed += st[1]
              elif st[0] == 'write':
                self.conn.write(st[1])
              elif st[0] == 'sleep':
                gevent.sleep(st[1])
              elif st[0] == 'close':
                self.conn.close_by_server('fin')
              elif st[0] == 'reset':
                self.conn.close_by_server('rst')
        net.add_server(self.host, self.port, H)

    def _handle(self, sock, addr):
      self.accepted += 1
      for st in self.script:
        try:
          if st[0] == 'read':
            got = b''
            while len(got) < st[1]:
              b = sock.recv(st[1] - len(got))
              if not b:
                break
              got += b
          elif st[0] == 'write':
            sock.sendall(st[1])
          elif st[0] == 'sleep':
            gevent.sleep(st[1])
          elif st[0] == 'close':
            sock.close()
            return
          elif st[0] == 'reset':
            import socket as s_
            sock.setsockopt(s_.SOL_SOCKET, s_.SO_LINGER, struct.pack('ii', 1, 0))
            sock.close()
            return
        except Exception:
          return
      gevent.sleep(2)

  def name(e):
    if isinstance(e, OSError) and e.errno:
      return 'OSError:' + errno.errorcode.get(e.errno, str(e.errno))
    return type(e).__name__

  def wrap(host, port):
    return VarzSocketWrapper(ScalesSocket(host, port), 'fid')

  def pause(s):
    gevent.sleep(s)

  # 1. refused connect
  if side == 'real':
    import socket as s_
    t = s_.socket()
    t.bind(('127.0.0.1', 0))
    rport = t.getsockname()[1]
    t.close()
    w = wrap('127.0.0.1', rport)
  else:
    w = wrap('nobody', 1)
  try:
    w.open()
    obs['refused'] = 'opened'
  except Exception as e:  # noqa
    obs['refused'] = [name(e), w.isOpen()]

  # 2. EOF in the middle of a reply
  p = Peer([('read', 4), ('write', b'\x00\x00\x00\x08ab'), ('close',)])
  w = wrap(p.host, p.port)
  w.open()
  w.write(b'ping')
  try:
    hdr = bytes(w.readAll(4))
    w.readAll(8)
    obs['eof-mid-reply'] = 'read everything'
  except Exception as e:  # noqa
    obs['eof-mid-reply'] = [hdr.hex(), name(e)]
  w.close()

  # 3. close() from another greenlet while blocked in recv
  p = Peer([('sleep', 1.0)])
  w = wrap(p.host, p.port)
  w.open()
  res = {}

  def reader():
    try:
      w.readAll(4)
      res['r'] = 'returned'
    except BaseException as e:  # noqa
      res['r'] = name(e)
  g = gevent.spawn(reader)
  pause(0.05)
  w.close()
  g.join(1.0)
  obs['close-while-reading'] = res.get('r', 'still blocked')

  # 4. reads after the peer reset the connection, then a write
  p = Peer([('read', 1), ('reset',)])
  w = wrap(p.host, p.port)
  w.open()
  w.write(b'x')
  pause(0.1)
  try:
    w.readAll(1)
    r = 'read'
  except Exception as e:  # noqa
    r = name(e)
  obs['read-after-reset'] = r
  w.close()

  # 5. chunked reply: readAll loops until complete
  p = Peer([('read', 1), ('write', b'ab'), ('sleep', 0.05), ('write', b'cd'), ('sleep', 0.05), ('write', b'ef'), ('sleep', 0.3)])
  w = wrap(p.host, p.port)
  w.open()
  w.write(b'x')
  obs['chunked'] = bytes(w.readAll(6)).decode()
  w.close()

  # 6. gevent.Timeout interrupts a blocked read and the socket stays usable
  p = Peer([('read', 1), ('sleep', 0.2), ('write', b'late')])
  w = wrap(p.host, p.port)
  w.open()
  w.write(b'x')
  try:
    with gevent.Timeout(0.05):
      w.readAll(4)
    r = 'no timeout'
  except gevent.Timeout:
    r = 'timeout'
  obs['timeout-then-read'] = [r, bytes(w.readAll(4)).decode()]
  w.close()

  # 8. shutdown() on a connection the peer has reset / has closed gracefully
  import socket as s_mod
  for how, key in (('reset', 'shutdown-after-reset'), ('close', 'shutdown-after-fin')):
    p = Peer([('read', 1), (how,)])
    w8 = wrap(p.host, p.port)
    w8.open()
    w8.write(b'x')
    pause(0.1)
    try:
      w8.readAll(1)
    except Exception:  # noqa
      pass
    try:
      w8._socket.handle.shutdown(s_mod.SHUT_RDWR)
      obs[key] = 'ok'
    except Exception as e:  # noqa
      obs[key] = name(e)
    w8.close()

  # 7. write after own close
  try:
    w.write(b'y')
    obs['write-after-close'] = 'wrote'
  except Exception as e:  # noqa
    obs['write-after-close'] = name(e)
  return obs


if __name__ == '__main__':
  if len(sys.argv) > 1:
    print(json.dumps(observe(sys.argv[1]), sort_keys=True))
    sys.exit(0)
  out = {}
  for side in ('real', 'sim'):
    r = subprocess.run(['/venv/bin/python', os.path.abspath(__file__), side], capture_output=True, text=True,
                       timeout=120, env=dict(os.environ, PYTHONPATH=V))
    if r.returncode != 0:
      print('%s side crashed:\n%s' % (side, r.stderr[-1500:]))
      sys.exit(2)
    out[side] = json.loads(r.stdout.strip().splitlines()[-1])
  bad = 0
  for k in sorted(out['real']):
    same = out['real'][k] == out['sim'].get(k)
    bad += not same
    print('%-22s real=%-40s sim=%-40s %s' % (k, json.dumps(out['real'][k]), json.dumps(out['sim'].get(k)),
                                           'ok' if same else 'MISMATCH'))
  sys.exit(1 if bad else 0)
