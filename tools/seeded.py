#!/usr/bin/env python3
"""Seeded behaviour-breaking changes (written by independent sub-agents).

  seeded.py import <name> <worktree> <property> "<needs>"   verify + store under seeded/<name>/
  seeded.py run <name> [--tier quick] [--seed 0] [CHECK ...]   apply (scratch copy; SEEDED_INPLACE=1: /repo itself), run checks, undo
  seeded.py runall [--tier quick]                             every seeded change against its property's check
"""
import glob, json, os, shutil, subprocess, sys
V = os.path.dirname(os.path.dirname(os.path.abspath(__file__)))
PY = '/venv/bin/python'


def sh(cmd, cwd=None, env=None, timeout=900):
  return subprocess.run(cmd, cwd=cwd, env=env, capture_output=True, text=True, timeout=timeout, shell=isinstance(cmd, str))


def do_import(name, wt, prop, needs):
  d = os.path.join(V, 'seeded', name)
  os.makedirs(d, exist_ok=True)
  diff = subprocess.run(['git', '-C', wt, 'diff', '--', 'scales'], capture_output=True).stdout   # bytes: keep CRLF
  assert diff.strip(), 'no source change in worktree'
  open(os.path.join(d, 'patch.diff'), 'wb').write(diff)
  demos = glob.glob(os.path.join(wt, 'demo_*.py'))
  assert demos, 'no demo'
  demo = demos[0]
  shutil.copy(demo, os.path.join(d, os.path.basename(demo)))
  env = dict(os.environ, PYTHONPATH=wt)
  ran = {}
  r = sh([PY, '-m', 'pytest', '-q', '-p', 'no:cacheprovider', '--timeout=600', 'test/scales'], cwd=wt, env=env)
  ran['tests_with_change'] = r.stdout.strip().splitlines()[-1] if r.stdout.strip() else r.stderr[-200:]
  r1 = sh([PY, os.path.basename(demo)], cwd=wt, env=env, timeout=300)
  ran['demo_with_change'] = 'exit %d: %s' % (r1.returncode, (r1.stdout + r1.stderr).strip()[-300:])
  # (no `git stash`: the stash is shared by all worktrees of a repository)
  pf = os.path.join(d, 'patch.diff')
  assert sh(['git', '-C', wt, 'apply', '-R', pf]).returncode == 0
  try:
    r2 = sh([PY, os.path.basename(demo)], cwd=wt, env=env, timeout=300)
  finally:
    assert sh(['git', '-C', wt, 'apply', pf]).returncode == 0
  ran['demo_without_change'] = 'exit %d: %s' % (r2.returncode, (r2.stdout + r2.stderr).strip()[-200:])
  ok = 'passed' in ran['tests_with_change'] and 'failed' not in ran['tests_with_change'] and r1.returncode != 0 and r2.returncode == 0
  chk = sh(['git', '-C', '/repo', 'apply', '--check', os.path.join(d, 'patch.diff')])
  ran['applies_to_repo'] = chk.returncode == 0
  meta = {'name': name, 'property': prop, 'needs_to_manifest': needs, 'confirmed': ok, 'what_i_ran': ran,
          'demo': os.path.basename(demo), 'caught_by': None}
  json.dump(meta, open(os.path.join(d, 'meta.json'), 'w'), indent=1)
  print(json.dumps(meta, indent=1))
  return ok


def do_run(name, checks, tier, seed):
  d = os.path.join(V, 'seeded', name)
  meta = json.load(open(os.path.join(d, 'meta.json')))
  checks = checks or [meta['property']]
  if meta.get('retired'):
    print('%s: retired (%s)' % (name, meta['retired'][:120]))
    return {}
  assert sh(['git', '-C', '/repo', 'status', '--porcelain', '--untracked-files=no']).stdout.strip() == '', '/repo not clean'
  # By default the patch is applied to a scratch copy of /repo that the checks read through
  # VERIF_REPO: a background run of the checks (vp run) imports /repo too and patching it in place
  # would contaminate that run (it happened once: a thorough C01 run imported a seeded tree).
  # SEEDED_INPLACE=1 applies to /repo itself (git -C /repo apply ...; git -C /repo checkout -- .),
  # and only when no other worker is alive.
  mine = os.getpid()
  others = [l for l in sh(['pgrep', '-af', 'vlib.worker|vlib.framework']).stdout.splitlines()
            if l.strip() and str(mine) not in l.split()[:1]]
  scratch = None
  if others or not os.environ.get('SEEDED_INPLACE'):
    import tempfile
    scratch = tempfile.mkdtemp(prefix='seedrun-', dir='/tmp')
    assert sh(['rsync', '-a', '--exclude', '.git', '/repo/', scratch + '/']).returncode == 0
    r = sh(['git', 'apply', os.path.join(d, 'patch.diff')], cwd=scratch)
    if r.returncode != 0:     # not a git directory: fall back to patch(1) semantics of git apply
      r = sh(['git', 'apply', '--unsafe-paths', '--directory=' + scratch, os.path.join(d, 'patch.diff')], cwd='/')
  else:
    r = sh(['git', '-C', '/repo', 'apply', os.path.join(d, 'patch.diff')])
  if r.returncode != 0:
    print('%s: PATCH DOES NOT APPLY to the current /repo (%s)' % (name, r.stderr.strip().splitlines()[-1][:160] if r.stderr.strip() else ''))
    if scratch:
      import shutil
      shutil.rmtree(scratch, ignore_errors=True)
    else:
      sh(['git', '-C', '/repo', 'checkout', '--', '.'])
    return {}
  res = {}
  try:
    for c in checks:
      env = dict(os.environ, VERIF_SEED=str(seed))
      if scratch:
        env['VERIF_REPO'] = scratch
      r = sh([os.path.join(V, 'check'), c, '--tier', tier, '--no-evidence'], cwd=V, env=env, timeout=3600)
      lines = r.stdout.strip().splitlines()
      if r.returncode == 1 and not any(l.startswith('VIOLATION property=') for l in lines):
        r.returncode = 3          # the check itself crashed: not a verdict
      res[c] = {'rc': r.returncode, 'first': lines[:2]}
      print('%s vs %s [%s, seed %s]: rc=%d %s' % (name, c, tier, seed, r.returncode,
            'CAUGHT' if r.returncode == 1 else 'missed' if r.returncode == 0 else 'INCONCLUSIVE'))
      for l in lines[:3]:
        print('    ' + l[:260])
  finally:
    if scratch:
      import shutil
      shutil.rmtree(scratch, ignore_errors=True)
    else:
      sh(['git', '-C', '/repo', 'checkout', '--', '.'])
  cb = meta.get('caught_by') or {}
  for c, v in res.items():
    cb['%s/%s' % (c, tier)] = 'caught' if v['rc'] == 1 else 'missed' if v['rc'] == 0 else 'inconclusive'
  meta['caught_by'] = cb
  json.dump(meta, open(os.path.join(d, 'meta.json'), 'w'), indent=1)
  return res


if __name__ == '__main__':
  a = sys.argv[1:]
  tier, seed = 'quick', 0
  if '--tier' in a:
    i = a.index('--tier'); tier = a[i + 1]; del a[i:i + 2]
  if '--seed' in a:
    i = a.index('--seed'); seed = a[i + 1]; del a[i:i + 2]
  if a[0] == 'import':
    sys.exit(0 if do_import(a[1], a[2], a[3], a[4]) else 1)
  elif a[0] == 'run':
    do_run(a[1], a[2:], tier, seed)
  elif a[0] == 'runall':
    for m in sorted(glob.glob(os.path.join(V, 'seeded', '*', 'meta.json'))):
      do_run(os.path.basename(os.path.dirname(m)), [], tier, seed)
