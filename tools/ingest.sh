#!/bin/bash
# tools/ingest.sh <name> <worktree> <prop> "<needs>" [extra checks...]: import a seeded change from a
# sub-agent's worktree, run its property's quick check (+ extras), remove the worktree.
set -u
cd "$(dirname "$0")/.."
name=$1; wt=$2; prop=$3; needs=$4; shift 4
python3 tools/seeded.py import "$name" "$wt" "$prop" "$needs" 2>&1 | grep -E "tests_with|demo_with|demo_without|applies|Error|error" | cut -c1-160
python3 tools/seeded.py run "$name" "$prop" "$@" 2>&1 | grep -E "CAUGHT|missed|INCONCL|kind=" | cut -c1-260 | head -6
git -C /repo worktree remove --force "$wt" && git -C /repo worktree prune
