#!/venv/bin/python
"""Run the cases a 16-worker shard runs up to and including one case, in-process (same
history as the full run), then exec an optional hook with env/check/res in scope:
  tools/debug_shard.py C04 quick 0 935 [hook.py]      (PRE=<file> is exec'd before the last case)"""
import os, sys
if os.environ.get('PYTHONHASHSEED') != '0':      # the runner's workers run with hash seed 0: same history only then
  os.environ['PYTHONHASHSEED'] = '0'
  os.execv(sys.executable, [sys.executable] + sys.argv)
V = os.path.dirname(os.path.dirname(os.path.abspath(__file__)))
sys.path.insert(0, V)
from vlib import framework as fw, boot
pid, tier, seed, last = sys.argv[1], sys.argv[2], int(sys.argv[3]), int(sys.argv[4])
nw = int(os.environ.get('NWORKERS', '16'))
env = boot.install()
check = fw.load_check(pid)
check.setup(env, tier)
for idx in range(last % nw, last + 1, nw):
  rng = fw.case_rng(pid, seed, idx)
  env.begin_case(rng, idx)
  if idx == last and os.environ.get('PRE'):
    exec(open(os.environ['PRE']).read())
  res = check.run_case(env, rng, idx, tier)
print('violations:', [(v['kind'], v['msg'][:300]) for v in res.violations])
print('extra:', res.extra)
if len(sys.argv) > 5:
  exec(open(sys.argv[5]).read())
