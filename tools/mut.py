#!/usr/bin/env python3
"""Mutant self-test helper: copy /repo to a scratch dir, apply one textual
replacement (or a patch file), run checks against it via VERIF_REPO, clean up.

usage: mut.py --file scales/x.py --old 'a' --new 'b' [--count 1] C10 [C01 ...]
       mut.py --patch p.diff C10
Options: --tier, --seed, --tests (also run the repo's own test-suite on the mutant)
"""
import argparse, os, shutil, subprocess, sys, tempfile

ap = argparse.ArgumentParser()
ap.add_argument('--file'); ap.add_argument('--old'); ap.add_argument('--new')
ap.add_argument('--count', type=int, default=1)
ap.add_argument('--patch')
ap.add_argument('--tier', default='quick'); ap.add_argument('--seed', default='0')
ap.add_argument('--tests', action='store_true')
ap.add_argument('props', nargs='+')
a = ap.parse_args()
d = tempfile.mkdtemp(prefix='scales-mut-', dir='/tmp')
try:
  subprocess.check_call(['rsync', '-a', '--exclude', '.git', '--exclude', '__pycache__',
                         '--exclude', '*.egg-info', '/repo/', d + '/'])
  if a.patch:
    subprocess.check_call(['patch', '-p1', '-s', '-i', os.path.abspath(a.patch)], cwd=d)
  else:
    p = os.path.join(d, a.file)
    s = open(p).read()
    if s.count(a.old) < 1:
      print('MUTANT: pattern not found'); sys.exit(3)
    s = s.replace(a.old, a.new, a.count)
    open(p, 'w').write(s)
  if a.tests:
    r = subprocess.run(['/venv/bin/python', '-m', 'pytest', '-q', '-x', '-p', 'no:cacheprovider',
                        '--timeout=300', 'test/scales'], cwd=d, capture_output=True, text=True,
                       env=dict(os.environ, PYTHONPATH=d))
    print('TESTS:', r.stdout.strip().splitlines()[-1] if r.stdout.strip() else r.stderr[-300:])
  env = dict(os.environ, VERIF_REPO=d, VERIF_SEED=a.seed)
  for pid in a.props:
    r = subprocess.run([os.path.join(os.path.dirname(os.path.dirname(os.path.abspath(__file__))), 'check'),
                        pid, '--tier', a.tier, '--no-evidence'], env=env, capture_output=True, text=True)
    lines = r.stdout.strip().splitlines()
    print('%s rc=%d %s' % (pid, r.returncode, 'KILLED' if r.returncode == 1 else 'survived'))
    for l in lines[:4]:
      print('   ', l[:300])
finally:
  shutil.rmtree(d, ignore_errors=True)
