#!/usr/bin/env python3
"""Append README rows for seeded changes not yet listed: tools/seed_rows.py name=note ..."""
import json, os, sys
V = os.path.dirname(os.path.dirname(os.path.abspath(__file__)))
readme = os.path.join(V, 'seeded', 'README.md')
txt = open(readme).read()
rows = []
for a in sys.argv[1:]:
  name, _, note = a.partition('=')
  if '| %s |' % name in txt:
    continue
  m = json.load(open(os.path.join(V, 'seeded', name, 'meta.json')))
  cb = m.get('caught_by') or {}
  rows.append('| %s | %s | %s | %s | %s |' % (name, m['property'], m['needs_to_manifest'].replace('|', '/'),
              ', '.join('%s: %s' % kv for kv in sorted(cb.items())), note or 'caught as built'))
if rows:
  open(readme, 'w').write(txt.rstrip('\n') + '\n' + '\n'.join(rows) + '\n')
print(len(rows), 'rows added')
