#!/usr/bin/env python3
"""Regenerates MANIFEST.json from the table below + props/*.py metadata."""
import json, os, sys
V = os.path.dirname(os.path.dirname(os.path.abspath(__file__)))
sys.path.insert(0, V)
from vlib.framework import load_check

TABLE = json.load(open(os.path.join(V, 'tools', 'manifest_table.json')))
props = [json.loads(l)['id'] for l in open(os.path.join(V, 'properties.jsonl'))]
checks, na = [], []
for pid in props:
  t = TABLE['checks'].get(pid)
  if not t:
    na.append({'property_id': pid, 'reason': TABLE['not_applicable'].get(
      pid, 'check not built yet in this round; planned (see DESIGN.md section 4)')})
    continue
  c = load_check(pid)
  checks.append({
    'property_id': pid,
    'quick_cmd': './check %s --tier quick' % pid,
    'thorough_cmd': './check %s --tier thorough' % pid,
    'evidence_file': 'evidence/%s.json' % pid,
    'replay_cmd_template': './check %s --replay {path}' % pid,
    'engine': t.get('engine', 'vloop-monitor'),
    'level_claimed': {'category': c.LEVEL, 'text': t['level_text'], 'design_ref': t['design_ref']},
    'level_note': t['level_note'],
    'technique': t['technique'],
  })
m = {
  'version': 1,
  'setup_cmd': TABLE['setup_cmd'],
  'hooks': TABLE['hooks'],
  'engines': TABLE['engines'],
  'checks': checks,
  'not_applicable': na,
  'notes': TABLE['notes'],
}
json.dump(m, open(os.path.join(V, 'MANIFEST.json'), 'w'), indent=1)
print('MANIFEST.json: %d checks, %d not_applicable' % (len(checks), len(na)))
