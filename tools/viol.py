#!/usr/bin/env python3
"""Summarise violations of a check run: tools/viol.py C01 [--seed N] [--tier quick] [--max 3]"""
import argparse, json, os, subprocess, sys, tempfile, collections
ap = argparse.ArgumentParser(); ap.add_argument('prop'); ap.add_argument('--seed', default='0'); ap.add_argument('--tier', default='quick')
ap.add_argument('--max', type=int, default=2); ap.add_argument('--workers', type=int, default=16); ap.add_argument('--kind', default=None)
a = ap.parse_args()
V = os.path.dirname(os.path.dirname(os.path.abspath(__file__)))
d = tempfile.mkdtemp()
ps = []
env = dict(os.environ, PYTHONPATH=V, PYTHONHASHSEED='0')
for i in range(a.workers):
  ps.append(subprocess.Popen(['/venv/bin/python', '-m', 'vlib.worker', '--prop', a.prop, '--tier', a.tier, '--seed', a.seed,
                              '--shard', '%d/%d' % (i, a.workers), '--out', '%s/%d.json' % (d, i)], cwd=V, env=env))
for p in ps: p.wait()
by = collections.defaultdict(list)
for i in range(a.workers):
  r = json.load(open('%s/%d.json' % (d, i)))
  if r.get('error'): print('ERROR', r['error'][-800:])
  for v in r['violations']:
    by[(v['kind'], json.dumps(v['facts'], sort_keys=True))].append(v)
for (k, f), vs in sorted(by.items()):
  if a.kind and not k.startswith(a.kind): continue
  print('==== %s %s  x%d  cases=%s' % (k, f, len(vs), sorted(set(v['case'] for v in vs))[:8]))
  for v in vs[:a.max]:
    print('   ', v['msg'][:400])
    print('      witness:', json.dumps(v['witness'])[:900])
