"""Full-stack scenarios shared by C01 (exactly once, by the deadline) and C02
(a call only receives its own reply): real Thrift / ThriftMux clients from the
public builders on the virtual loop against simulated servers, with seeded
reply timing around each call's deadline, drops, reorders, connection faults at
random I/O operations, refused / black-holed connects, servers going down and
up, and members joining and leaving."""
from fractions import Fraction

from vlib.framework import BaseCheck, CaseResult

EPS = 2e-6
GRID = Fraction(1, 100)


def rounded_deadline(d):
  """d rounded up to the 10 ms timer grid, exact rational over the same double,
  evaluated for d+EPS so that float noise can never make the bound too tight."""
  x = Fraction(d + EPS) / GRID
  k = -((-x.numerator) // x.denominator)
  return float(k * GRID)


class FullCheck(BaseCheck):
  FOCUS = ()
  QUICK_CASES = 1280
  THOROUGH_CASES = 40000
  QUICK_WALL = 180
  THOROUGH_WALL = 1800
  MIN_DISTINCT = 10
  ANCHORS = ('scales.sink:ClientTimeoutSink._TimeoutHelper',
             'scales.sink:ClientTimeoutSink.AsyncProcessResponse',
             'scales.dispatch:_AsyncResponseSink.AsyncProcessResponse',
             'scales.dispatch:MessageDispatcher.DispatchMethodCall',
             'scales.loadbalancer.base:LoadBalancerSink.AsyncProcessRequest._on_open_done',
             'scales.thrift.sink:SocketTransportSink._AsyncProcessTransaction',
             'scales.mux.sink:MuxSocketTransportSink._ProcessTaggedReply',
             'scales.mux.sink:MuxSocketTransportSink._Shutdown')
  # the balancer's own defer-until-open branch cannot be reached through the public
  # client (the dispatcher waits on the same open result first); C03-C05 reach it
  REQUIRED_ANCHORS = tuple(a for a in ANCHORS if '_on_open_done' not in a)

  def bias(self, rng):
    return {}

  def run_case(self, env, rng, idx, tier):
    import gevent
    from scales.dispatch import ScalesError
    from scales.message import TimeoutError as ScalesTimeout
    from vlib import servers, simnet
    from vlib.stackworld import StackWorld
    from vlib.gen.verifsvc import ttypes
    out = CaseResult()
    classes = set()
    bias = self.bias(rng)
    kind = ('thrift', 'mux')[idx % 2]
    classes.add(kind)
    n_eps = rng.choice([1, 1, 2, 3, 5])
    balancer = rng.choice(['aperture', 'aperture', 'heap'])
    open_timeout = rng.choice([None, None, 0])
    boundary = rng.random() < 0.15
    scripted = rng.random() < bias.get('scripted', 0.35)
    fault_p = rng.choice([0.0, 0.0, 0.01, 0.05])
    conn_lat = rng.choice([0.0005, 0.0005, 0.02, 0.3, 1.5])
    first_mode = rng.choice(['up', 'up', 'up', 'refuse', 'blackhole'])
    pool = None
    if kind == 'thrift' and rng.random() < 0.5:
      pool = {'min_watermark': rng.choice([0, 1]), 'max_watermark': rng.choice([1, 2, 4]),
              'max_queue_len': rng.choice([1, 4, 2 ** 31 - 1])}
    Tset = rng.choice([[0.05, 0.2, 1.0], [1.0], [0.005, 0.03], [2.0, 10.0], [0.5, 30.0]])
    world = [None]
    forced = {}     # call id -> reply delay the server applies, whatever the seeded policy would say
    stats = {'calls': 0, 'values': 0, 'errors': 0, 'timeouts': 0, 'stale_replies': 0, 'server_requests': 0,
             'faults_fired': 0, 'late_after_deadline': 0, 'early_timeouts': 0}

    def cid_of(req):
      call = req.get('call')
      if not call or not call[1]:
        return None
      a0 = call[1][0]
      s = a0.name if isinstance(a0, ttypes.Pair) else a0
      if isinstance(s, str) and s.startswith('c') and '-' in s:
        try:
          return int(s[1:s.index('-')])
        except ValueError:
          return None
      return None

    class Policy(servers.DefaultPolicy):
      def __call__(self, server, conn, req):
        w = world[0]
        cid = cid_of(req)
        rec = w.calls[cid] if (w is not None and cid is not None and cid < len(w.calls)) else None
        if cid in forced:
          req['policy_class'] = 'forced'
          return {'delay': forced[cid]}
        k = rng.random()
        act = {}
        if rec is None or k < 0.45:
          act['delay'] = rng.choice([0.0005, 0.002, 0.01]) * (0.5 + rng.random())
          cls = 'fast'
        elif k < 0.75:
          # reply lands around the caller's deadline
          off = rng.choice([-0.015, -0.0101, -0.005, -0.001, -0.0001, 0.0, 0.0001, 0.001, 0.005, 0.0101, 0.02])
          if not boundary and off == 0.0:
            off = rng.choice([-1, 1]) * rng.random() * 0.004
          due = rec['t'] + rec['T'] + off
          act['delay'] = max(0.0001, due - env.now)
          cls = 'near-deadline' if off != 0.0 else 'at-deadline'
        elif k < 0.88:
          act['delay'] = rec['T'] * (1.2 + rng.random() * 2)
          cls = 'late'
        else:
          act['drop'] = True
          cls = 'never'
        if rng.random() < 0.1:
          n = rng.randint(2, 5)
          act['chunks'] = [(rng.randint(1, 9), rng.choice([0.0, 0.001, 0.004])) for _ in range(n)]
        if not act.get('drop') and rng.random() < bias.get('undecodable_reply', 0.04):
          # a well-framed reply whose payload the client cannot decode as this call's reply
          act['mangle'] = rng.choice(['truncate', 'empty', 'noise', 'bad-version', 'huge-string'])
          classes.add('reply:undecodable')
        if not act.get('drop') and rng.random() < bias.get('cut_reply', 0.03):
          # the server dies while it writes the reply: some of the frame's bytes, then end of stream
          act['cut'] = rng.choice([1, 2, 3, 5, 9, 30])
          classes.add('reply-cut-short-then-eof')
        if rng.random() < bias.get('close_after_reply', 0.02):
          act['close'] = rng.choice(['fin', 'rst'])
          if rng.random() < 0.5 and 'delay' in act:
            act['close_delay'] = act['delay']      # closes right behind the reply
            classes.add('reply-and-close-same-instant')
        req['policy_class'] = cls
        classes.add('reply:' + cls)
        return act

      def ping(self, server, conn, tag):
        if rng.random() < 0.03:
          return {'drop': True}
        return {'delay': 0.0005}

    modes = [first_mode] + ['up'] * (n_eps - 1)
    decoy_error = None
    if rng.random() < 0.3:
      # another service of the same process (same base service, a method of the same name with a
      # different argument struct) has marshalled a call before this client does
      try:
        import io
        from scales.message import MethodCallMessage
        from scales.thrift.serializer import MessageSerializer
        from vlib.gen.verifsvc import Ext2Service
        classes.add('other-service-in-process')
        MessageSerializer(Ext2Service.Iface).SerializeThriftCall(
          MethodCallMessage(Ext2Service.Iface, 'extra', (7, 'decoy'), {}), io.BytesIO())
      except ImportError:
        pass
      except Exception as e:  # noqa
        decoy_error = e
    aperture = None
    if balancer == 'aperture' and n_eps > 1 and rng.random() < 0.5:
      # non-default aperture: wider minimum and frequent jitter rounds under traffic
      aperture = {'min_size': rng.choice([1, 2, 3]), 'jitter_min_sec': 3, 'jitter_max_sec': 8,
                  'min_load': 0.5, 'max_load': rng.choice([1.0, 2.0])}
      classes.add('aperture-jitter')
    try:
      w = StackWorld(env, rng, kind=kind, n_eps=n_eps, balancer=balancer, timeout=Tset[0],
                     client_id=rng.choice([None, 'cid']) if kind == 'mux' else None,
                     open_timeout=open_timeout, scripted=scripted, policy=Policy(), pool=pool,
                     server_modes=modes, connect_latency=conn_lat, aperture=aperture)
    except Exception as e:  # noqa
      out.violate('harness:build-failed', 'building the client raised %r' % e, {})
      return out
    world[0] = w
    net = w.net
    if fault_p:
      def fault_fn(server, conn, op, ordinal):
        if op == 'connect':
          return simnet.Fault('refuse') if rng.random() < fault_p else None
        if rng.random() < fault_p:
          stats['faults_fired'] += 1
          classes.add('io-fault:' + op)
          kind_ = rng.choice(['error', 'eof'] + (['silence'] if op == 'recv' else []))
          # the error the operating system reports varies: a reset, or a connection that timed out at the TCP
          # level (ETIMEDOUT, which Python raises as the built-in TimeoutError), or an unreachable host
          import errno as errno_
          return simnet.Fault(kind_, rng.choice([errno_.ECONNRESET, errno_.ECONNRESET, errno_.ETIMEDOUT, errno_.EHOSTUNREACH]))
        return None
      net.fault_fn = fault_fn
    if rng.random() < bias.get('send_stall', 0.15):
      # peers whose buffers fill up now and then: a write blocks part-way for a while
      classes.add('send-stall')
      stall = rng.choice([0.02, 0.2, 1.0])
      for s_ in w.servers:
        s_.sim.send_delay = lambda conn: stall * rng.random() if rng.random() < 0.3 else 0.0
    if rng.random() < bias.get('short_sends', 0.15):
      # sockets whose send() takes only part of a buffer (small socket buffers / frames larger
      # than the free space): whoever writes has to loop until everything is out
      classes.add('short-sends')
      lim = rng.choice([1, 7, 64, 700])
      for s_ in w.servers:
        s_.sim.send_limit = lim
    if open_timeout == 0 or first_mode != 'up' or conn_lat > 0.1:
      classes.add('slow-or-async-open')
    if idx % 11 == 4:
      # debug logging through a handler that yields (a socket / syslog handler under gevent):
      # every log call inside the library is a point where other greenlets run
      env.yielding_logs()
      classes.add('yielding-log-handler')
      try:
        from scales.loadbalancer.heap import HeapBalancerSink as _HB
        lb_, hops_ = w.dispatcher.next_sink, 0
        while lb_ is not None and not isinstance(lb_, _HB) and hops_ < 8:
          lb_, hops_ = getattr(lb_, 'next_sink', None), hops_ + 1
        if isinstance(lb_, _HB):
          # not while the logging greenlet holds the balancer's lock: event-loop callbacks of the
          # library take that lock and cannot wait for it (see DESIGN, round 17)
          env.log_yield_ok = lambda: getattr(lb_._heap_lock, '_owner', None) is not gevent.getcurrent()
      except ImportError:
        pass

    # ---------------------------------------------------------------- schedule
    horizon = min(max(Tset) * 3 + 2, 40.0)
    ncalls = rng.choice([3, 8, 20, 50]) if tier == 'quick' else rng.choice([3, 8, 20, 50, 120])
    events = []
    tcur = 0.0
    for i in range(ncalls):
      if rng.random() < 0.5:
        tcur += rng.random() * horizon / ncalls * 2
      events.append((tcur, 'call'))
    for _ in range(rng.choice([0, 0, 1, 2, 4])):
      events.append((rng.random() * horizon, rng.choice(['server-down', 'server-up', 'kill-conns'])))
    if scripted:
      for _ in range(rng.choice([0, 1, 2, 4]) + (rng.choice([2, 5, 9]) if bias.get('membership') else 0)):
        events.append((rng.random() * horizon, rng.choice(['leave', 'join'])))
    if rng.random() < 0.25:
      for _ in range(rng.choice([1, 2])):
        events.append((rng.random() * horizon, 'hog'))
    hogs = []
    events.sort(key=lambda e: e[0])
    t_start = env.now
    if boundary:
      classes.add('boundary')
    methods = ['echo', 'echo', 'echo', 'fail', 'fail', 'swap', 'extra', 'lock', 'tail', 'concat']
    for when, what in events:
      target = t_start + when
      if boundary:
        target = float(Fraction(round(target * 100), 100))    # on the 10ms grid
      if target > env.now:
        env.run_until(target)
      if what == 'call':
        m = rng.choice(methods)
        cid = len(w.calls)
        tagstr = 'c%d-%d' % (cid, rng.getrandbits(20))
        if m in ('fail', 'echo') and rng.random() < 0.15:
          tagstr += rng.choice([' 100% full', ' bad key %s', ' {0} {x}', ' %(name)s'])    # formatter metacharacters in values and errors
          classes.add('text-with-format-characters')
        if m == 'fail' and rng.random() < 0.4:
          tagstr += ':FINE'         # this call returns a value; 'fail' otherwise raises its declared exception
        args = (ttypes.Pair(name=tagstr, n=cid, nums=[1, 2], kv={}),) if m == 'swap' else (tagstr,)
        kw = None
        if m == 'tail':
          # a method whose value may be empty (falsy, not missing)
          tagstr += rng.choice([':', ':', ':x'])
          args = (tagstr,)
          if tagstr.endswith(':'):
            classes.add('reply:falsy-value')
        if m == 'concat':
          # a method whose IDL numbers its parameters out of order (2: first, 1: second)
          classes.add('parameters-with-descending-ids')
          if rng.random() < 0.5:
            args = (tagstr, 'second-%d' % cid)
          else:
            kw = {'second': 'second-%d' % cid}
        if m == 'lock':
          # a service method one of whose parameters is called 'timeout', passed by position or by keyword
          if rng.random() < 0.6:
            kw = {'timeout': rng.randint(1, 90)}
            classes.add('argument-named-timeout-by-keyword')
          else:
            args = (tagstr, rng.randint(1, 90))
        if rng.random() < bias.get('unserialisable', 0.03):
          # an argument the binary protocol cannot write (wrong type for the declared field): the
          # call never reaches a server, it still completes exactly once - with an error
          classes.add('unserialisable-argument')
          m, args = rng.choice([('echo', (cid * 1000 + 7,)), ('swap', ('not-a-struct-%d' % cid,)),
                                ('echo', (ttypes.Pair(name=tagstr),))])
        T = rng.choice(Tset)
        if boundary and not (w.dispatcher._open_ar is not None and w.dispatcher._open_ar.ready()) and rng.random() < 0.7:
          # deadline on the very instant the pending open completes (connect latency, + one
          # ping round trip on the mux stack), or one grid step around it
          T = max(0.002, conn_lat + (0.0005 if kind == 'mux' else 0.0) + rng.choice([0.0, 0.0, 0.01, -0.01]))
          classes.add('deadline-at-open-completion')
        rec = w.call(m, args, timeout=T, kwargs=kw)
        if rec.get('via_proxy'):
          classes.add('through-generated-client')
        if not rec['open_ready_at_issue']:
          classes.add('issued-before-open')
      elif what == 'hog':
        # the application issues a burst of asynchronous calls with tiny timeouts and then keeps
        # the CPU (no greenlet switch) until after their deadlines: the clock moves, the loop does not
        classes.add('cpu-hog')
        for _k in range(rng.choice([1, 3, 6])):
          cid = len(w.calls)
          w.call('echo', ('c%d-%d' % (cid, rng.getrandbits(20)),), timeout=rng.choice([0.005, 0.02, 0.05]))
        hs = env.now
        env.clock.now += rng.choice([0.03, 0.08, 0.3])
        hogs.append((hs, env.now))
      elif what == 'server-down':
        s = rng.choice(w.servers)
        s.sim.mode = rng.choice(['refuse', 'blackhole'])
        for c in s.sim.conns:
          c.close_by_server(rng.choice(['fin', 'rst']))
        classes.add('server-down')
      elif what == 'server-up':
        for s in w.servers:
          s.sim.mode = 'up'
        classes.add('server-up')
      elif what == 'kill-conns':
        s = rng.choice(w.servers)
        for c in s.sim.conns:
          if not c.client_closed:
            c.close_by_server(rng.choice(['fin', 'rst']))
        classes.add('kill-conns')
      elif what == 'leave' and w.ss.truth:
        h, p = rng.choice(sorted(w.ss.truth))
        srv = next(s for s in w.servers if s.sim.port == p)
        if any(not r.get('reply_vt') or r['reply_vt'] > env.now for r in srv.requests[-5:]):
          classes.add('member-left-inflight')
        w.ss.leave(h, p)
        classes.add('leave')
      elif what == 'join':
        s = rng.choice(w.servers)
        w.ss.join(s.sim.host, s.sim.port)
        classes.add('join')
    if scripted and balancer == 'aperture' and len(w.ss.truth) >= 2 and idx % 3 == 1:
      # a member the aperture holds idle leaves the server set; later a burst of calls issued in one
      # instant all run into their timeout (the load average jumps at the first completion, which may
      # widen the aperture from inside that completion)
      try:
        from scales.loadbalancer.aperture import ApertureBalancerSink as _AP
        lb_i, hops_i = w.dispatcher.next_sink, 0
        while lb_i is not None and not isinstance(lb_i, _AP) and hops_i < 8:
          lb_i, hops_i = getattr(lb_i, 'next_sink', None), hops_i + 1
      except ImportError:
        lb_i = None
      idle_i = sorted((e_.host, e_.port) for e_ in getattr(lb_i, '_idle_endpoints', ())) if lb_i is not None else []
      idle_i = [e_ for e_ in idle_i if e_ in w.ss.truth]
      if idle_i:
        classes.add('idle-member-leaves-then-burst')
        for s_ in w.servers:
          s_.sim.mode = 'up'
        w.ss.leave(*rng.choice(idle_i))
        env.advance(1.0)
        Tb = rng.choice([0.5, 2.0])
        for _k in range(rng.choice([20, 40])):
          cid = len(w.calls)
          forced[cid] = Tb * 4
          w.call('echo', ('c%d-%d' % (cid, rng.getrandbits(20)),), timeout=Tb)
        env.advance(Tb * 5 + 1.0)
    if scripted and pool is not None and w.ss.truth and bias.get('dead_waiter_drain') and \
        rng.random() < bias['dead_waiter_drain']:
      # the last member's pool is saturated by slow calls, further calls expire while they wait in its
      # queue, the member leaves with the slow calls outstanding, and then they complete
      classes.add('drain-with-dead-waiters')
      keep = rng.choice(sorted(w.ss.truth))
      for h, p in sorted(w.ss.truth):
        if (h, p) != keep:
          w.ss.leave(h, p)
      for s in w.servers:
        s.sim.mode = 'up'
      env.advance(3.0)
      for _k in range(pool['max_watermark']):
        cid = len(w.calls)
        forced[cid] = 0.5
        w.call('echo', ('c%d-%d' % (cid, rng.getrandbits(20)),), timeout=2.0)
      env.advance(0.01)
      for _k in range(min(pool['max_queue_len'], rng.choice([1, 2]))):
        cid = len(w.calls)
        forced[cid] = 0.001
        w.call('echo', ('c%d-%d' % (cid, rng.getrandbits(20)),), timeout=0.05)
      env.advance(0.1)
      w.ss.leave(*keep)
      env.advance(1.0)
    if kind == 'thrift' and scripted and pool is None and len(w.ss.truth) >= 2 and idx % 5 == 2:
      # a member with two calls in flight on two pooled connections loses one of them (reset): that call fails,
      # the member's pool closes, later dispatches find the member down and mark it (the other call still counts
      # as its load); the member then leaves the server set, reconnecting is slow, and the surviving call, which
      # nobody answers, is ended by its own timeout
      classes.add('down-member-with-call-in-flight-leaves')
      for s_ in w.servers:
        s_.sim.mode = 'up'
      env.advance(1.0)
      n0_ = dict((s_.ep, len(s_.requests)) for s_ in w.servers)
      Tl = rng.choice([1.5, 3.0])
      for _k in range(len(w.ss.truth) + 1):
        cid = len(w.calls)
        forced[cid] = 30.0
        w.call('echo', ('c%d-%d' % (cid, rng.getrandbits(20)),), timeout=Tl)
      env.advance(0.05)
      busy_ = [s_ for s_ in w.servers if len(set(q_['conn'] for q_ in s_.requests[n0_[s_.ep]:])) >= 2
               and (s_.sim.host, s_.sim.port) in w.ss.truth]
      if busy_:
        sx_ = rng.choice(busy_)
        conns_ = sorted(set(q_['conn'] for q_ in sx_.requests[n0_[sx_.ep]:]))
        victim_ = next((c_ for c_ in sx_.sim.conns if c_.id == conns_[0] and not c_.client_closed), None)
        if victim_ is not None:
          victim_.close_by_server('rst')
          env.advance(0.02)
          for _k in range(3 * len(w.ss.truth)):
            cid = len(w.calls)
            forced[cid] = 0.001
            w.call('echo', ('c%d-%d' % (cid, rng.getrandbits(20)),), timeout=1.0)
          env.advance(0.05)
          sx_.sim.connect_latency = 4.0
          w.ss.leave(sx_.sim.host, sx_.sim.port)
          env.advance(Tl + 1.0)
    if kind == 'mux' and idx % 7 == 6 and (not scripted or w.ss.truth):
      # slow calls that are outstanding across the transport's keep-alive pings (one every 30-40 s), with
      # further calls issued after a ping was answered and before the slow replies arrive
      classes.add('calls-outstanding-across-keepalive-pings')
      for s_ in w.servers:
        s_.sim.mode = 'up'
      env.advance(2.0)
      for _k in range(rng.choice([3, 8])):
        cid = len(w.calls)
        forced[cid] = 47.0 + rng.random() * 5
        w.call('echo', ('c%d-%d' % (cid, rng.getrandbits(20)),), timeout=120.0)
      env.advance(42.0)
      for _k in range(rng.choice([3, 8])):
        cid = len(w.calls)
        forced[cid] = 0.5 + rng.random() * 12
        w.call('echo', ('c%d-%d' % (cid, rng.getrandbits(20)),), timeout=120.0)
      env.advance(20.0)
    # quiet tail: no stimulus, long enough for every deadline, late reply and retry
    tmax = max([r['T'] for r in w.calls] or [1.0])
    for s in w.servers:
      s.sim.mode = 'up'
    last_issue = max([r['t'] for r in w.calls] or [env.now])
    env.run_until(max(env.now, last_issue + tmax) + 2 * tmax + 1.0)
    snapshot = [(r['ar'].ready(), r['ar'].value if r['ar'].ready() else None,
                 r['ar'].exception if r['ar'].ready() else None) if r['ar'] is not None else None
                for r in w.calls]
    env.advance(2 * tmax + 1.0)

    # ---------------------------------------------------------------- oracles
    def viol(kind_, msg, facts=None, witness=None):
      if any(kind_.startswith(p) for p in self.FOCUS):
        f = {'stack': kind}
        f.update(facts or {})
        if len(out.violations) < 8:
          out.violate(kind_, msg, f, witness)
      else:
        out.extra['diag_other_property:' + kind_] = out.extra.get('diag_other_property:' + kind_, 0) + 1

    def ob(family, n=1):
      if family in self.FOCUS:
        out.obligations += n

    reqs_by_cid = {}
    for r in w.requests():
      c = cid_of(r)
      reqs_by_cid.setdefault(c, []).append(r)
    stats['server_requests'] = len(w.requests())
    kinds = []
    for i, rec in enumerate(w.calls):
      stats['calls'] += 1
      comps = rec['completions']
      brief = {'cid': rec['cid'], 'method': rec['method'], 't': rec['t'], 'T': rec['T'],
               'open_ready_at_issue': rec['open_ready_at_issue'],
               'completions': [(c['vt'] - rec['t'], c['kind'], type(c['payload']).__name__, str(c['payload'])[:80])
                               for c in comps],
               'server_saw': [(q['vt'] - rec['t'], q.get('policy_class'), q.get('reply_vt') and q['reply_vt'] - rec['t'])
                              for q in reqs_by_cid.get(rec['cid'], [])]}
      if rec.get('dispatch_raised') is not None:
        continue
      # -------- C01
      ob('once:')
      facts = {'issued_before_open': not rec['open_ready_at_issue']}
      if len(comps) == 0:
        viol('once:never-completed', 'call %d (T=%.3fs) never completed, %.1fs after its deadline' % (
          rec['cid'], rec['T'], env.now - rec['t'] - rec['T']), facts, brief)
        kinds.append('none')
        continue
      if len(comps) > 1:
        viol('once:completed-twice', 'call %d completed %d times: %r' % (
          rec['cid'], len(comps), brief['completions']), facts, brief)
      c0 = comps[0]
      dt = c0['vt'] - rec['t']
      is_timeout = c0['kind'] == 'exception' and isinstance(c0['payload'], ScalesTimeout)
      ob('deadline:', 2)
      bound = rounded_deadline(rec['t'] + rec['T'])
      for hs, he in hogs:
        if hs <= bound + EPS and he >= rec['t']:
          bound = max(bound, he)      # nothing can run while the application keeps the CPU
      if c0['vt'] > bound + EPS:
        stats['late_after_deadline'] += 1
        viol('deadline:late', 'call %d (T=%.3fs) completed %.4fs after issue, %.4fs later than its deadline rounded '
             'up to the 10ms grid (%s)' % (rec['cid'], rec['T'], dt, c0['vt'] - bound, type(c0['payload']).__name__),
             facts, brief)
      if is_timeout and c0['vt'] < rec['t'] + rec['T'] - EPS:
        stats['early_timeouts'] += 1
        viol('deadline:early-timeout', 'call %d got TimeoutError %.4fs after issue although T=%.3fs (%.4fs early)' % (
          rec['cid'], dt, rec['T'], rec['T'] - dt), facts, brief)
      ob('once:')
      snap = snapshot[i]
      ar = rec['ar']
      if snap is not None and snap[0]:
        same = (ar.value is snap[1] or ar.value == snap[1]) and (ar.exception is snap[2])
        first_ok = (c0['kind'] == 'value' and (snap[1] is c0['payload'] or snap[1] == c0['payload'])) or \
                   (c0['kind'] == 'exception' and snap[2] is c0['payload'])
        if not same or (len(comps) == 1 and not first_ok):
          viol('once:result-changed', 'call %d: result changed after completion' % rec['cid'], facts, brief)
      if is_timeout:
        stats['timeouts'] += 1
        kinds.append('timeout')
        if any(q.get('reply_vt') and q['reply_vt'] > c0['vt'] and not q.get('dropped') for q in reqs_by_cid.get(rec['cid'], [])):
          stats['stale_replies'] += 1
          classes.add('timer-before-reply')
      elif c0['kind'] == 'value':
        stats['values'] += 1
        kinds.append('value')
        classes.add('reply-before-timer')
      else:
        stats['errors'] += 1
        kinds.append('error')
      # -------- C02
      exp = servers.expected_reply(rec['method'], rec['args'], rec.get('kwargs'))
      if c0['kind'] == 'value':
        ob('reply:')
        v = c0['payload']
        if exp[0] != 'value':
          viol('reply:value-for-failing-call', 'call %d (%s%r) returned value %r, the server raises for it' % (
            rec['cid'], rec['method'], rec['args'], v), {}, brief)
        else:
          want = exp[1]
          ok = ((v.name, v.n, v.nums) == (want.name, want.n, want.nums)) if isinstance(want, ttypes.Pair) and \
            isinstance(v, ttypes.Pair) else v == want
          if not ok:
            viol('reply:wrong-value', 'call %d (%s%r) returned %r, the server\'s reply for that request is %r' % (
              rec['cid'], rec['method'], rec['args'], v, want), {}, brief)
      elif isinstance(c0['payload'], ScalesError) and isinstance(c0['payload'].inner_exception, ttypes.VerifError):
        ob('reply:')
        inner = c0['payload'].inner_exception
        if exp[0] != 'exc' or inner.why != exp[1].why:
          viol('reply:wrong-exception', 'call %d (%s%r) raised %r' % (rec['cid'], rec['method'], rec['args'], inner),
               {}, brief)
      elif isinstance(c0['payload'], ScalesError) and \
          type(c0['payload'].inner_exception).__name__ == 'TApplicationException' and exp[0] == 'value':
        # the protocol layer reports a failure of the call itself (unknown result, wrong method, ...):
        # only a reply the server mangled or cut can justify that; a plain value reply cannot
        qs_ = reqs_by_cid.get(rec['cid'], [])
        ob('reply:')
        if qs_ and not any(q_.get('mangled') or q_.get('cut') or q_.get('dropped') for q_ in qs_):
          viol('reply:application-error-for-a-value', 'call %d (%s%r): the server answered with the value %r, the caller got %r' % (
            rec['cid'], rec['method'], rec['args'], exp[1], c0['payload'].inner_exception), {'falsy': not exp[1]}, brief)
    for q in w.requests():
      ob('reply:')
      c = cid_of(q)
      if c is None or c >= len(w.calls):
        viol('reply:request-not-from-a-call', 'server decoded %r which no caller issued' % (q['call'],), {})
        continue
      rec = w.calls[c]
      passed = tuple(rec['args']) + tuple((rec.get('kwargs') or {}).values())      # keywords are given in declared order
      a_ok = q['call'][0] == rec['method'] and len(q['call'][1]) == len(passed)
      if a_ok:
        for g, a in zip(q['call'][1], passed):
          if isinstance(a, ttypes.Pair):
            a_ok = a_ok and isinstance(g, ttypes.Pair) and (g.name, g.n, g.nums, g.kv) == (a.name, a.n, a.nums, a.kv)
          else:
            a_ok = a_ok and g == a
      if not a_ok or not q['consumed_all']:
        viol('reply:request-altered', 'server decoded %r for call %d which passed %s%r %r' % (
          q['call'], c, rec['method'], rec['args'], rec.get('kwargs') or {}), {})
    if decoy_error is not None:
      viol('reply:request-altered', 'a call of another service of this process (Ext2Service.extra(7, \'decoy\')) could '
           'not be marshalled with its own argument struct: %r' % decoy_error, {'other_service': True})
    for s in w.servers:
      for bf in s.bad_frames:
        viol('wire:bad-frame', 'server could not decode what the client wrote: %r' % (bf,), {})
    # -------- C04 at full-stack quiescence: every call has completed and a quiet tail of
    # 4 T_max has passed, so no request is outstanding anywhere: every node's load must be 0
    try:
      from scales.loadbalancer.heap import HeapBalancerSink
      from vlib.lbworld import attributed_load
      lb = w.dispatcher.next_sink
      hops = 0
      while lb is not None and not isinstance(lb, HeapBalancerSink) and hops < 8:
        lb = getattr(lb, 'next_sink', None)
        hops += 1
      if isinstance(lb, HeapBalancerSink) and all(r['completions'] for r in w.calls if r.get('dispatch_raised') is None):
        for n in lb._heap[1:]:
          ob('load:')
          al = attributed_load(n)
          if al != 0:
            viol('load:nonzero-at-quiescence', 'member %s: balancer attributes load %r at quiescence (all %d calls '
                 'completed, quiet for %.1fs)' % (n.endpoint, al, len(w.calls), 2 * tmax + 1.0),
                 {'balancer': balancer, 'sign': 'neg' if al < 0 else 'pos'}, {'raw': n.load})
    except ImportError:
      pass
    # -------- C05 at full-stack quiescence: eligible endpoints == current server set
    try:
      from scales.loadbalancer.heap import HeapBalancerSink as _H
      lb5 = w.dispatcher.next_sink
      hops = 0
      while lb5 is not None and not isinstance(lb5, _H) and hops < 8:
        lb5 = getattr(lb5, 'next_sink', None)
        hops += 1
      if isinstance(lb5, _H) and w.ss is not None and getattr(w.ss, 'pending', 0) == 0 and \
          w.dispatcher._open_ar is not None and w.dispatcher._open_ar.ready():
        ob('membership:')
        heap_eps = [(n.endpoint.host, n.endpoint.port) for n in lb5._heap[1:]]
        idle = set((e.host, e.port) for e in getattr(lb5, '_idle_endpoints', ()))
        truth = set(w.ss.truth)
        eligible = set(heap_eps) | idle
        if len(heap_eps) != len(set(heap_eps)) or (set(heap_eps) & idle):
          viol('membership:duplicate', 'endpoint twice in the balancer (active %r, idle %r)' % (sorted(heap_eps), sorted(idle)),
               {'balancer': balancer})
        elif eligible != truth:
          viol('membership:differs', 'at quiescence the balancer can dispatch to %r, the server set is %r' % (
            sorted(eligible), sorted(truth)), {'balancer': balancer, 'missing': bool(truth - eligible),
                                               'extra': bool(eligible - truth)})
    except ImportError:
      pass
    # -------- C04 removal at full-stack quiescence: a member that left (and did not re-join)
    # has had its channel closed, so no connection to it is still open from the client's side
    if w.ss is not None and getattr(w.ss, 'pending', 0) == 0:
      for s_ in w.servers:
        if (s_.sim.host, s_.sim.port) in w.ss.truth:
          continue
        ob('removal:')
        open_conns = [c.id for c in s_.sim.conns if not c.client_closed]
        if open_conns:
          viol('removal:connection-open-at-quiescence', 'member %s left the server set, all calls completed and '
               '%.1fs passed, but %d connection(s) to it are still open on the client side' % (
                 s_.ep, 2 * tmax + 1.0, len(open_conns)), {'balancer': balancer}, {'conns': open_conns[:5]})
    # -------- a read loop that kept reading a connection at end-of-stream without yielding (it would
    # never end: no timer, no other call could run again); the simulation broke it after 2000 reads
    ob('once:')
    for cid_, vt_ in net.read_spins[:2]:
      viol('once:reader-spins-at-end-of-stream', 'a client read loop read connection %d 2000 times in one instant after '
           'the peer had closed it in the middle of a frame, without yielding: it would spin for ever and no call could '
           'complete any more' % cid_, {})
    w.close()
    env.advance(0.5)
    ok_errs = ('GreenletExit',)
    for e in env.errors:
      if e['type'] in ok_errs:
        continue
      out.extra['diag_greenlet_errors'] = out.extra.get('diag_greenlet_errors', 0) + 1
      viol('greenlet-error:' + e['type'], 'unhandled exception in a client greenlet: %s: %s\n%s' % (
        e['type'], e['value'], e['tb'][-500:]), {'exc': e['type']})
    out.classes = sorted(classes)
    out.nontrivial = stats['calls'] > 0 and (stats['server_requests'] > 0 or stats['timeouts'] > 0)
    for k, v in stats.items():
      out.extra[k] = v
    from collections import Counter
    km = Counter(kinds)
    out.sig = (kind, n_eps, balancer, open_timeout, tuple(sorted((k, min(v, 3)) for k, v in km.items())),
               sorted(c for c in classes if c in ('reply-before-timer', 'timer-before-reply', 'issued-before-open',
                                                  'member-left-inflight', 'boundary', 'server-down', 'kill-conns')
                      or c.startswith('io-fault')))
    if idx % 29 == 0:
      out.sample = {'stack': kind, 'endpoints': n_eps, 'balancer': balancer, 'open_timeout': open_timeout,
                    'first_server': first_mode, 'connect_latency': conn_lat, 'pool': pool, 'timeouts': Tset,
                    'calls': stats['calls'], 'outcomes': dict(km), 'classes': sorted(classes),
                    'first_calls': [dict(cid=r['cid'], T=r['T'], method=r['method'],
                                         completions=[(round(c['vt'] - r['t'], 5), c['kind'], type(c['payload']).__name__)
                                                      for c in r['completions']]) for r in w.calls[:5]]}
    return out
