"""C07 - watermark pool bounds concurrency, queues FIFO and never leaks capacity.

Real ClientTimeoutSink -> real WatermarkPoolSink -> harness-owned provider of
serial sinks.  Every request is dispatched in its own greenlet (as the real
dispatcher does)."""
from vlib.framework import BaseCheck, CaseResult

IDLE, OPEN, BUSY, CLOSED = 1, 2, 3, 4


class C07(BaseCheck):
  ID = 'C07'
  RULE = ('case = one pool configuration (min,max,queue) from a grid incl. (0,1,1) (1,1,inf) (1,2,2) '
          '(2,4,3) (1,3,0) and one history of 20-300 ops: issue (with/without deadline), complete a busy '
          'connection (reply/error), let queued requests time out, kill a connection (busy, or found dead '
          'on release, or while cached), advance time; connections open synchronously / with delay; in every 5th case their Close() yields and half of the completions coincide with a new arrival (which then runs inside the release). After '
          'every op at a quiescent point the provider-side trace is checked against a reference model '
          '(bounds, exclusivity, FIFO hand-over, work conservation, max-waiters, idle retention, '
          'close-on-dead) and at the end a capacity probe issues max_watermark concurrent requests; in every other '
          'case the owner then closes the pool with connections lent out (nothing beyond min_watermark may exist '
          'once they have come back). '
          'A connection on which a request timed out re-establishes itself for 0/50/300 ms and reports Busy meanwhile (being lent then is a violation); a max-waiters rejection is judged against live waiters plus timed-out waiters that no released usable connection has walked past yet. '
          'non-trivial = the queue was used or a connection was created beyond the first; distinct by '
          '(config, max queue depth bucket, #timed out while queued, death class, open mode)')
  ANCHORS = ('scales.pool.watermark:WatermarkPoolSink._Get', 'scales.pool.watermark:WatermarkPoolSink._Release',
             'scales.pool.watermark:WatermarkPoolSink._ProcessQueue', 'scales.pool.watermark:WatermarkPoolSink.Close',
             'scales.sink:ClientTimeoutSink._TimeoutHelper')
  REQUIRED_ANCHORS = ANCHORS
  REQUIRED_CLASSES = ('queued', 'timed-out-while-queued', 'stale-at-head', 'max-waiters', 'dead-on-release',
                      'idle-retention', 'probe', 'handover', 'closed-while-lent', 'fault-before-release',
                      'recovering-after-timeout', 'close-yields', 'arrival-during-release', 'request-while-pool-opening')
  ASSUMPTIONS = ('arrival order of queued requests = order in which their dispatch greenlets were spawned '
                 '(they do not yield before reaching the queue)',
                 'a max-waiters rejection is accepted whenever live + not-yet-skipped timed-out waiters >= '
                 'max_queue_len, and required whenever live waiters alone >= max_queue_len')
  QUICK_CASES = 1600
  THOROUGH_CASES = 150000
  QUICK_WALL = 180
  THOROUGH_WALL = 1800
  MIN_DISTINCT = 10

  def run_case(self, env, rng, idx, tier):
    import gevent
    from scales.asynchronous import AsyncResult
    from scales.constants import SinkProperties
    from scales.dispatch import ServiceClosedError
    from scales.loadbalancer.zookeeper import Endpoint
    from scales.message import (Deadline, MethodCallMessage, MethodReturnMessage,
                                TimeoutError as ScalesTimeout)
    from scales.pool.watermark import WatermarkPoolSink, MaxWaitersError
    from scales.sink import ClientMessageSink, ClientMessageSinkStack, TimeoutSinkProvider
    out = CaseResult()
    classes = set()
    INF = 2 ** 31 - 1
    mn, mx, ql = rng.choice([(3, 2, 2), (4, 1, INF), (0, 1, 1), (1, 1, INF), (1, 2, 2), (2, 4, 3), (1, 3, 0), (0, 2, INF), (1, 1, 2),
                             (3, 3, 1), (1, 6, 4), (0, 1, INF)])
    open_mode = rng.choice(['sync', 'sync', 'delayed'])
    close_yields = idx % 5 == 3        # connections whose Close() does cooperative work (flush, TLS shutdown)
    # like the serial transport, a connection on which a request timed out re-establishes itself and
    # reports Busy until that is done: for that long it cannot carry another request
    recover_delay = rng.choice([0.0, 0.0, 0.05, 0.3])
    sinks = []
    reqs = []
    release_log = []
    step = [0]
    by_greenlet = {}

    def viol(kind_, msg, facts=None, witness=None):
      f = {'config': [mn, mx, ql if ql < INF else 'inf']}
      f.update(facts or {})
      if len(out.violations) < 6:
        out.violate(kind_, msg, f, witness)

    def close_pool(where):
      try:
        top.Close()
      except Exception as e:  # noqa: an exception escaping Close() is an observation, not a harness crash
        import traceback
        viol('close-raised', 'Close() of the pool (%s) raised %s: %s' % (where, type(e).__name__, e),
             {'exc': type(e).__name__}, {'traceback': traceback.format_exc()[-700:]})

    class Serial(ClientMessageSink):
      def __init__(self):
        super(Serial, self).__init__()
        self.id = len(sinks)
        self._state = IDLE
        self.current = None
        self.closed = False
        self.dead = False
        self.created_step = step[0]
        self.served = 0
        self.released_idle = False
        self.recovering = False
        sinks.append(self)
        req = by_greenlet.get(gevent.getcurrent())
        if req is not None:
          req['creator'] = True
        env.emit('prov.create', sink=self.id)

      @property
      def state(self):
        return self._state

      def Open(self):
        ar = AsyncResult()

        def fin():
          if not self.closed and not self.dead:
            self._state = OPEN
            ar.set(True)
          else:
            ar.set_exception(Exception('connect failed'))
        if open_mode == 'sync':
          fin()
        else:
          g = gevent.Greenlet(fin)
          g.start_later(rng.choice([0.001, 0.02, 0.2]))
        return ar

      def Close(self):
        if not self.closed:
          self.closed = True
          env.emit('prov.close', sink=self.id)
        self._state = CLOSED
        if close_yields and gevent.getcurrent() is not gevent.get_hub():
          classes.add('close-yields')
          gevent.sleep(0)

      def die(self, signal):
        self.dead = True
        self._state = CLOSED
        env.emit('prov.die', sink=self.id)
        if signal:
          self.on_faulted.Set(Exception('connection lost'))

      def AsyncProcessRequest(self, sink_stack, msg, stream, headers):
        req = reqs[msg.args[0]]
        env.emit('prov.request', sink=self.id, rid=req['id'])
        out.obligations += 1
        if self.current is not None:
          viol('exclusivity', 'connection %d lent to request %d while request %d is still in flight on it' % (
            self.id, req['id'], self.current['id']), {})
        if self.recovering:
          classes.add('lent-while-recovering')
          viol('exclusivity:recovering', 'connection %d lent to request %d (%s) while it is still busy re-establishing '
               'itself after the timeout of its previous request (it reports Busy)' % (
                 self.id, req['id'], 'a queued request' if req.get('queued_at') is not None else 'a new request'),
               {'queued': req.get('queued_at') is not None})
        if self.closed:
          viol('closed-connection-used', 'request %d started on connection %d after the pool closed it' % (
            req['id'], self.id), {})
        # FIFO: nobody older is still waiting
        if req.get('queued_at') is not None:
          classes.add('handover')
          older = [r for r in reqs if r.get('queued_at') is not None and r['queued_at'] < req['queued_at']
                   and r['started'] is None and not r['deliveries']]
          out.obligations += 1
          if older:
            viol('fifo', 'queued request %d started before older waiting request(s) %r' % (
              req['id'], [r['id'] for r in older]), {})
        if req['deliveries']:
          # The caller already has its TimeoutError (it expired while the pool was
          # still connecting).  Like the real serial transport, refuse to transmit
          # and answer with a timeout, which hands the connection back to the pool.
          classes.add('expired-before-start')
          sink_stack.AsyncProcessResponseMessage(MethodReturnMessage(error=ScalesTimeout()))
          return
        if self.dead:
          # a dead connection fails the request at once (write error); the pool
          # finds it dead on release
          classes.add('dead-on-release')
          req['started'] = (self, step[0], env.now)
          sink_stack.AsyncProcessResponseMessage(MethodReturnMessage(error=Exception('connection is dead')))
          return
        req['started'] = (self, step[0], env.now)
        req['stack'] = sink_stack
        self.current = req
        self.served += 1
        self.released_idle = False

      def AsyncProcessResponse(self, sink_stack, context, stream, msg):
        pass

    class Provider(object):
      def CreateSink(self, props):
        return Serial()

    class Terminator(ClientMessageSink):
      def AsyncProcessRequest(self, *a):
        raise NotImplementedError()

      def AsyncProcessResponse(self, sink_stack, context, stream, msg):
        context['deliveries'].append(msg)
        context['delivered_at'] = (step[0], env.now)
        # the completion travelled up through the pool: the connection it was
        # lent is released from the pool's point of view (reply, error or timeout)
        st = context['started']
        if st is not None:
          # a connection comes back to the pool: which live waiters are queued at this instant
          # (only releases of a connection that can carry the next request at once: one that died or
          # is busy re-establishing itself is replaced first, and the queue is walked later)
          if not st[0].dead and not st[0].closed and not (isinstance(msg.error, ScalesTimeout) and recover_delay):
            release_log.append((step[0], [x['queued_at'] for x in reqs if x.get('queued_at') is not None
                                          and x['started'] is None and not x['deliveries']]))
        if st is not None and st[0].current is context:
          st[0].current = None
          st[0].released_idle = True
          if isinstance(msg.error, ScalesTimeout) and recover_delay and not st[0].closed and not st[0].dead:
            sk_ = st[0]
            sk_.recovering = True
            sk_._state = BUSY
            classes.add('recovering-after-timeout')

            def recovered():
              sk_.recovering = False
              if not sk_.closed and not sk_.dead:
                sk_._state = OPEN
            g_ = gevent.Greenlet(recovered)
            g_.start_later(recover_delay)
        env.emit('stack.deliver', rid=context['id'], err=type(msg.error).__name__ if msg.error else None)
    term = Terminator()

    pprov = WatermarkPoolSink.Builder(min_watermark=mn, max_watermark=mx, max_queue_len=ql)
    pprov.next_provider = Provider()
    tprov = TimeoutSinkProvider()
    tprov.next_provider = pprov
    props = {SinkProperties.Endpoint: Endpoint('ph', 1), SinkProperties.Label: 'pool%d' % idx}
    top = tprov.CreateSink(props)
    pool = top.next_sink
    faults = []
    pool.on_faulted.Subscribe(lambda v: faults.append(env.now))

    def live():
      return [s for s in sinks if not s.closed and not s.dead]

    def waiting(include_stale=False):
      return [r for r in reqs if r.get('queued_at') is not None and r['started'] is None
              and (include_stale or not r['deliveries'])]

    def issue(timeout=None, first=None):
      req = {'id': len(reqs), 'step': step[0], 'vt': env.now, 'started': None, 'deliveries': [],
             'timeout': timeout, 'queued_at': None, 'creator': False}
      reqs.append(req)
      msg = MethodCallMessage(None, 'm', (req['id'],), {})
      msg.properties['__Endpoint'] = None
      if timeout is not None:
        msg.properties[Deadline.KEY] = env.now + timeout
      stack = ClientMessageSinkStack()
      stack.Push(term, req)
      # model state just before the pool sees the request
      pre_wait_live = len(waiting())
      pre_wait_all = len([r for r in reqs if r.get('queued_at') is not None and r['started'] is None
                          and not r.get('skipped')])

      def run():
        by_greenlet[gevent.getcurrent()] = req
        try:
          top.AsyncProcessRequest(stack, msg, None, {})
        finally:
          by_greenlet.pop(gevent.getcurrent(), None)
      g = gevent.spawn(run)
      if first is not None:
        # something else happens in the instant of the arrival, before the arriving greenlet gets to
        # run (a completion: if releasing the connection yields, the arrival runs inside that window)
        first()
      gevent.sleep(0)      # let it run up to its first yield
      # classify what the pool did with it
      if first is not None:
        if req['started'] is None and not req['deliveries'] and not req['creator'] and g.ready():
          req['queued_at'] = req['id']
          classes.add('queued')
      elif req['started'] is None and not req['deliveries'] and not req['creator'] and g.ready():
        req['queued_at'] = req['id']
        classes.add('queued')
        out.obligations += 1
        if pre_wait_live >= ql:
          viol('max-waiters:exceeded', 'request %d was queued although %d requests were already waiting '
               '(max_queue_len=%d)' % (req['id'], pre_wait_live, ql), {})
      elif req['deliveries'] and isinstance(req['deliveries'][0].error, MaxWaitersError):
        classes.add('max-waiters')
        out.obligations += 1
        # timed-out waiters keep their place until a released connection walks the queue past
        # them: one whose timeout was followed (in an earlier, finished step) by a release that
        # found no live waiter ahead of it has been skipped and no longer counts
        stale = 0
        for r in reqs:
          if r.get('queued_at') is not None and r['started'] is None and r['deliveries'] and r.get('delivered_at'):
            t_r = r['delivered_at'][0]
            walked = any(t_r < s_ < step[0] and not any(x < r['queued_at'] for x in live_ids)
                         for s_, live_ids in release_log)
            if not walked:
              stale += 1
        if pre_wait_live + stale < ql:
          viol('max-waiters:spurious', 'request %d rejected with MaxWaitersError with only %d waiting (+%d '
               'timed out that no released connection has walked past yet), max_queue_len=%d' % (
                 req['id'], pre_wait_live, stale, ql), {'live_waiting': pre_wait_live})
      return req

    def complete(s, how):
      req = s.current
      s.current = None          # the reply travels up through the pool, which releases the connection
      s.released_idle = True
      if how == 'reply':
        m = MethodReturnMessage(return_value=('r', req['id']))
      else:
        m = MethodReturnMessage(error=Exception(how))
      try:
        req['stack'].AsyncProcessResponseMessage(m)
      except Exception as e:  # noqa: an exception escaping the pool's release path is an observation
        import traceback
        viol('release-raised', 'delivering the completion of request %d (%s) through the pool raised %s: %s' % (
          req['id'], how, type(e).__name__, e), {'exc': type(e).__name__}, {'traceback': traceback.format_exc()[-700:]})

    pool_closed_at = [None]
    stats = {'max_queue': 0, 'timed_out_queued': 0, 'deaths': 0, 'created': 0, 'stale_head': 0}

    def invariants():
      lv = live()
      w_ = waiting()
      stats['max_queue'] = max(stats['max_queue'], len(w_))
      if pool.state == CLOSED and pool_closed_at[0] is None:
        pool_closed_at[0] = step[0]
      if pool_closed_at[0] is not None:
        return       # the pool closed itself (dead connection found): only the waiter clause applies
      out.obligations += 3
      # connections the pool still holds (a dead one it has not had a chance to
      # notice yet still occupies its slot)
      held = [s for s in sinks if not s.closed]
      if len(held) > mx:
        viol('bound', '%d connections exist, max_watermark=%d' % (len(held), mx), {})
      # work conservation: a live waiter must not coexist with idle capacity
      if w_:
        idle = [s for s in lv if s.current is None and s._state == OPEN]
        if idle or len(held) < mx:
          viol('work-conservation', 'requests %r are waiting while %s' % (
            [r['id'] for r in w_], ('connection(s) %r are idle' % [s.id for s in idle]) if idle
            else ('only %d of %d connections exist' % (len(held), mx))),
            {'idle_connection': bool(idle), 'stale_waiters': len(waiting(True)) - len(w_)},
            {'events': [dict((k, v) for k, v in e.items() if k != 'seq') for e in env.events[-12:]],
             'errors': env.errors[-2:]})

    # ---------------------------------------------------------------- open
    open_ar = top.Open()
    if open_mode != 'sync' and rng.random() < 0.4:
      # requests that reach the pool while its own Open() is still waiting for the first connection
      # (a balancer lets requests through to a member that is still opening)
      classes.add('request-while-pool-opening')
      for _i in range(rng.randint(1, 2)):
        issue(rng.choice([None, 2.0]))
    g = 0
    while not open_ar.ready() and g < 50:
      env.advance(0.05)
      g += 1
    env.advance(0.3)
    invariants()
    if not reqs and pool.state != CLOSED:
      # nothing has been asked of the pool yet: it holds no more than min_watermark connections
      out.obligations += 1
      if len(live()) > mn:
        viol('idle-retention', '%d connection(s) held right after Open() with no traffic, min_watermark=%d' % (len(live()), mn),
             {'after': 'open'})
    nops = rng.choice([20, 60, 150, 300])
    death_cls = None
    for _ in range(nops):
      step[0] += 1
      k = rng.random()
      busy = [s for s in live() if s.current is not None]
      if k < 0.42:
        issue(rng.choice([None, None, 0.05, 0.3, 2.0]))
      elif k < 0.75 and busy:
        if close_yields and rng.random() < 0.5:
          # a completion and an arrival in the same instant
          classes.add('arrival-during-release')
          s_c, how_c = rng.choice(busy), rng.choice(['reply', 'reply', 'error'])
          issue(rng.choice([None, None, 0.3, 2.0]), first=lambda: complete(s_c, how_c))
        else:
          complete(rng.choice(busy), rng.choice(['reply', 'reply', 'error']))
      elif k < 0.80 and pool_closed_at[0] is None and rng.random() < 0.5:
        cands = live()
        if cands:
          s = rng.choice(cands)
          if s.current is not None:
            death_cls = 'busy'
            sig = rng.random() < 0.5
            s.die(sig)
            classes.add('dead-on-release')
            if sig and rng.random() < 0.5:
              # the fault notification is delivered before the dead connection answers its request
              # (a transport that fails the request from a later greenlet)
              classes.add('fault-before-release')
              env.settle()
            complete(s, 'connection lost')
            out.obligations += 1
            if pool.state != CLOSED:
              viol('dead-on-release:pool-not-closed', 'connection %d was found dead on release but the pool '
                   'did not close' % s.id, {})
          elif rng.random() < 0.3:
            death_cls = 'cached'
            classes.add('dead-while-cached')
            s.die(False)
          stats['deaths'] += 1
      else:
        env.advance(rng.choice([0.01, 0.1, 0.4, 2.5]) * rng.random())
      env.settle()
      for r in reqs:
        if r.get('queued_at') is not None and r['started'] is None and r['deliveries'] and not r.get('counted'):
          r['counted'] = True
          if isinstance(r['deliveries'][0].error, ScalesTimeout):
            stats['timed_out_queued'] += 1
            classes.add('timed-out-while-queued')
            w_all = [x for x in reqs if x.get('queued_at') is not None and x['started'] is None and not x.get('skipped')]
            if w_all and w_all[0] is r:
              classes.add('stale-at-head')
      invariants()
      if len(out.violations) >= 6 or pool_closed_at[0] is not None:
        break
    # ---------------------------------------------------------------- wind down
    step[0] += 1
    guard = 0
    quiet = 0
    while quiet < 3 and guard < 500:
      busy_now = [s for s in live() if s.current is not None]
      for s in busy_now:
        complete(s, 'reply')
      env.advance(0.25)        # lets pending connects finish and queued requests start
      quiet = 0 if busy_now else quiet + 1
      guard += 1
    env.advance(3.0)
    invariants()
    if pool_closed_at[0] is None:
      classes.add('idle-retention')
      out.obligations += 2
      if len(live()) > mn:
        viol('idle-retention', '%d connections retained after traffic stopped, min_watermark=%d' % (
          len(live()), mn), {})
      # capacity probe: max_watermark concurrent requests must all start at once
      classes.add('probe')
      n = min(mx, 6)
      probe = [issue(None) for _ in range(n)]
      env.advance(0.5)
      not_started = [r['id'] for r in probe if r['started'] is None and not r['deliveries']]
      if not_started:
        viol('capacity-leak', 'after traffic stopped %d of %d concurrent probe requests did not start '
             '(max_watermark=%d, %d connections exist): capacity was lost' % (
               len(not_started), n, mx, len(live())),
             {'timed_out_while_queued': stats['timed_out_queued'] > 0, 'death': death_cls},
             {'errors': env.errors[-2:], 'diag_pool_size': pool._current_size, 'diag_pool_waiters': len(pool._waiters),
              'diag_pool_cache': len(pool._cache),
              'connections': [(s.id, s._state, s.current and s.current['id']) for s in live()],
              'events': [dict((k, v) for k, v in e.items() if k != 'seq') for e in env.events[-10:]]})
      for s in live():
        if s.current is not None:
          complete(s, 'reply')
      env.settle()
      if idx % 2 == 0:
        # the owner closes the pool while connections are lent out: when they come back, traffic
        # has stopped for good and nothing beyond min_watermark may be retained
        classes.add('closed-while-lent')
        for _ in range(min(mx, 3)):
          issue(None)
        env.advance(0.5)
        n_lent = len([s for s in live() if s.current is not None])
        close_pool('while connections are lent out')
        env.settle()
        for s in live():
          if s.current is not None:
            complete(s, 'reply')
        env.advance(0.5)
        out.obligations += 1
        if len(live()) > mn:
          viol('idle-retention', '%d connections still exist after the pool was closed with %d lent out and all of them '
               'came back, min_watermark=%d' % (len(live()), n_lent, mn), {'closed_while_lent': True})
    else:
      # pool closed itself after finding a dead connection: waiters failed exactly once
      out.obligations += 2
      if not faults and death_cls == 'busy':
        pass   # fault signal comes from the dead connection's own signal; not part of the statement
      for r in reqs:
        if r.get('queued_at') is not None and r['started'] is None:
          errs = [type(m.error).__name__ for m in r['deliveries']]
          if len(r['deliveries']) != 1:
            viol('closed:waiter-deliveries', 'waiting request %d got %d completions %r after the pool closed' % (
              r['id'], len(r['deliveries']), errs), {})
          elif not isinstance(r['deliveries'][0].error, (ServiceClosedError, ScalesTimeout)):
            viol('closed:waiter-error', 'waiting request %d failed with %r, expected ServiceClosedError' % (
              r['id'], errs), {})
    out.obligations += 1
    for r in reqs:
      if len(r['deliveries']) > 1:
        viol('double-completion', 'request %d completed %d times' % (r['id'], len(r['deliveries'])), {})
    close_pool('at the end of the history, possibly for the second time')
    env.settle()
    stats['created'] = len(sinks)
    out.classes = sorted(classes)
    out.nontrivial = 'queued' in classes or len(sinks) > 1
    out.extra = {k: v for k, v in stats.items()}
    out.extra['greenlet_errors_diag'] = len(env.errors)
    out.sig = ((mn, mx, min(ql, 99)), min(stats['max_queue'], 5), min(stats['timed_out_queued'], 3), death_cls,
               open_mode, nops, 'stale-at-head' in classes)
    if idx % 53 == 0:
      out.sample = {'config': [mn, mx, ql if ql < INF else 'inf'], 'open_mode': open_mode, 'ops': nops,
                    'stats': stats, 'classes': sorted(classes),
                    'events_tail': [dict((k, v) for k, v in e.items() if k != 'seq') for e in env.events[-8:]]}
    return out


CHECK = C07()
