"""C02 - a call only ever receives the reply to its own request."""
from props.fullcommon import FullCheck


class C02(FullCheck):
  ID = 'C02'
  FOCUS = ('reply:', 'wire:')
  RULE = ('same scenarios as C01 (biased to late/stale replies, connection closes after replies and small '
          'pools so that connections are re-used right after a timeout). Every call carries a unique id in '
          'its argument and the simulated server\'s reply is an injective function of the arguments, so a '
          'value can be attributed to the request that produced it. Oracle: every request the server '
          'decoded (Thrift library Processor) equals a call a caller issued (method and arguments); every '
          'value/declared exception delivered to a caller is the server\'s reply for that very request. '
          'non-trivial = at least one call reached a server; distinct as C01')
  REQUIRED_CLASSES = ('thrift', 'mux', 'timer-before-reply', 'reply:late', 'reply:near-deadline', 'reply:never',
                      'kill-conns', 'io-fault:recv', 'send-stall', 'short-sends', 'reply:undecodable',
                      'unserialisable-argument', 'yielding-log-handler',
                      'argument-named-timeout-by-keyword', 'parameters-with-descending-ids', 'calls-outstanding-across-keepalive-pings', 'through-generated-client', 'reply-cut-short-then-eof',
                      'reply:falsy-value')

  def bias(self, rng):
    return {'close_after_reply': 0.05, 'send_stall': 0.3, 'short_sends': 0.25}


CHECK = C02()
