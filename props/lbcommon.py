"""Shared history generator and oracles for the balancer properties C03/C04/C05
(one world, three oracles; each check reports only the violations of its own
property and counts the others as diagnostics)."""
from vlib.framework import BaseCheck, CaseResult

IDLE, OPEN, BUSY, CLOSED = 1, 2, 3, 4


class LBCheck(BaseCheck):
  FOCUS = ()          # violation-kind prefixes that belong to this property
  KINDS = ('heap', 'aperture')
  QUICK_CASES = 1200
  THOROUGH_CASES = 20000
  QUICK_WALL = 180
  THOROUGH_WALL = 1800
  MIN_DISTINCT = 10
  ANCHORS = ('scales.loadbalancer.heap:HeapBalancerSink._AsyncProcessRequestImpl',
             'scales.loadbalancer.heap:HeapBalancerSink._RemoveSink',
             'scales.loadbalancer.heap:HeapBalancerSink._AddSink',
             'scales.loadbalancer.aperture:ApertureBalancerSink._RemoveSink',
             'scales.loadbalancer.aperture:ApertureBalancerSink._TryExpandAperture',
             'scales.loadbalancer.aperture:ApertureBalancerSink._ContractAperture',
             'scales.loadbalancer.base:LoadBalancerSink._OpenImpl',
             'scales.sink:ClientTimeoutSink._TimeoutHelper')
  REQUIRED_ANCHORS = ANCHORS

  def profile(self, rng, tier):
    """Op weights etc.; overridden per property to bias the workload."""
    return {'dispatch': 40, 'complete': 30, 'down': 5, 'up': 5, 'leave': 6, 'join': 6, 'advance': 8}

  def run_case(self, env, rng, idx, tier):
    from vlib.lbworld import make_world, attributed_load
    from scales.loadbalancer.base import NoMembersError
    from scales.loadbalancer.zookeeper import Endpoint
    from scales.message import TimeoutError as ScalesTimeout
    out = CaseResult()
    classes = set()
    kind = self.KINDS[idx % len(self.KINDS)]
    classes.add(kind)
    pool = [Endpoint('m%02d' % i, 7000 + i) for i in range(16)]
    if rng.random() < 0.2:
      # a provider whose endpoints are plain (named) tuples
      from collections import namedtuple
      TupleEndpoint = namedtuple('Endpoint', 'host port')
      pool = [TupleEndpoint('m%02d' % i, 7000 + i) for i in range(16)]
      classes.add('tuple-endpoints')
    if rng.random() < 0.3:
      # endpoints that look alike and are different members all the same: host names that differ
      # only in letter case, the same host on another port
      E_ = type(pool[0])
      pool = pool + [E_('M%02d' % i, 7000 + i) for i in range(4)] + [E_('m%02d' % i, 7100 + i) for i in range(2)]
      classes.add('look-alike-endpoints')
    n0 = rng.choice([0, 1, 1, 2, 3, 3, 4, 5, 6, 8, 12])
    lb_params = {}
    if kind == 'aperture':
      mn = rng.choice([1, 1, 2, 3, 4])
      lb_params = {'min_size': mn, 'max_size': rng.choice([mn, mn + 1, mn + 3, 2 ** 31]),
                   'min_load': 0.5, 'max_load': 2.0, 'jitter_min_sec': 0, 'jitter_max_sec': 0}
      if rng.random() < 0.3:
        lb_params.update(min_load=rng.choice([1.0, 2.0]), max_load=rng.choice([1.5, 8.0, 3.0]))
        if lb_params['max_load'] <= lb_params['min_load']:
          lb_params['max_load'] = lb_params['min_load'] * 2
    open_mode = rng.choice(['sync', 'sync', 'delayed', 'mixed', 'flaky'])

    def open_delay(ch):
      if open_mode == 'sync':
        return 0.0, True
      if open_mode == 'delayed':
        return rng.choice([0.001, 0.05, 0.5]), True
      if open_mode == 'mixed':
        return rng.choice([0.0, 0.0, 0.01, 0.3]), True
      return rng.choice([0.0, 0.02]), rng.random() > 0.25
    gs_delay = rng.choice([0.0, 0.0, 0.05, 1.0])
    gs_fail = 1 if rng.random() < 0.08 else 0
    gs_dups = rng.choice([1, 2]) if rng.random() < 0.15 else 0
    if gs_dups and n0:
      classes.add('duplicates-in-initial-list')
    named = rng.choice(['thrift', 'aux']) if rng.random() < 0.12 else None
    if named:
      # the provider names one of the members' additional endpoints (zk://...#name): that one is
      # the member's address for the balancer, the service endpoint is not to be used
      classes.add('named-endpoint')
    w = make_world(env, rng, kind, lb_params, open_delay, gs_delay, gs_fail, gs_dups, endpoint_name=named)
    lb, ss = w.lb, w.ss
    w.close_fails_inflight = rng.random() < 0.4
    if idx % 9 == 7:
      # debug logging through a handler that yields: every log call in the balancer is a point
      # where the notifier, timers and other greenlets run
      env.yielding_logs()
      env.log_yield_ok = w.lock_free
      classes.add('yielding-log-handler')
    if idx % 7 == 5:
      # a log handler whose I/O takes a moment, during which another member's connection is back: while the
      # balancer reports a member it found down in the middle of choosing ('Marking node ... down'), a member
      # that was down re-establishes its connection.  (No greenlet switch is made here - the state change is
      # all that another greenlet would have done.)
      def _while_logging(level, logger, msg):
        req_ = w.dispatching
        if req_ is None or not msg.startswith('Marking node') or rng.random() < 0.4:
          return
        downs = [c for c in w.heap_channels() if c.down and not c.close_steps and c._state != OPEN]
        if downs:
          c_ = rng.choice(downs)
          c_.set_up()
          req_.setdefault('up_during_choice', []).append(c_)
          classes.add('member-up-while-choosing')
      env.log_hook = _while_logging
    for ep in rng.sample(pool, n0):
      ss.truth[ep] = __import__('vlib.lbworld', fromlist=['Member']).Member(ep)
    prof = self.profile(rng, tier)
    ops = [k for k, v in prof.items() for _ in range(v)]
    nops = rng.choice([30, 80, 200, 500] if tier == 'quick' else [30, 80, 200, 600, 2000])

    tracked_removed = {}     # channel -> dict(requests_seen, must_close)
    stats = {'dispatches': 0, 'completions': 0, 'removals': 0, 'joins': 0, 'timeouts': 0,
             'contractions': 0, 'expansions': 0, 'no_member_dispatches': 0, 'deferred_dispatches': 0}
    diag = {}

    def ob(family):
      if family in self.FOCUS:
        out.obligations += 1

    def violate(kind_, msg, facts=None, witness=None):
      if any(kind_.startswith(p) for p in self.FOCUS):
        f = {'balancer': kind}
        f.update(facts or {})
        if len(out.violations) < 6:
          out.violate(kind_, msg, f, witness)
      else:
        diag[kind_] = diag.get(kind_, 0) + 1

    def heap_dump():
      return ['#%d %r raw=%d attributed=%d marked_down=%s downq=%s' % (
        n.index, n.channel, n.load, attributed_load(n), n.load >= 0, n.downq is not None) for n in lb._heap[1:]]

    def snapshot():
      chans = w.heap_channels()
      return {'chans': chans, 'states': {c: c._state for c in chans},
              'out': {c: w.model_out(c) for c in chans},
              # requests whose completion is being processed right now (this dispatch is issued from
              # inside it): the balancer may or may not have released them yet
              # ... and requests whose deadline has just fired: the balancer releases them from the deadline's own
              # callback chain and the caller gets the TimeoutError at the end of it (this dispatch may be nested
              # inside that chain: the release made the aperture contract, a Close() failed other requests, ...)
              'completing': {c: sum(1 for r_ in w.completing if r_['channel'] is c and not r_['deliveries']) +
                             sum(1 for r_ in w.requests if r_['channel'] is c and not r_['deliveries'] and r_ not in w.completing
                                 and r_['timeout'] is not None and r_['vt'] + r_['timeout'] <= env.now + 1e-6) for c in chans},
              'marked': {n.channel: n.load >= 0 for n in lb._heap[1:]},
              'size': len(chans), 'heap': heap_dump()}

    def check_dispatch(req, pre):
      ch = req['channel']
      if req.get('raised'):
        ob('dispatch:')
        violate('dispatch:raised', 'dispatching request %d raised %s: %s (%d members in use)' % (
          req['id'], type(req['raised'][0]).__name__, req['raised'][0], len(pre['chans'])),
          {'exc': type(req['raised'][0]).__name__}, {'traceback': req['raised'][1]})
        return
      P0 = pre['chans']
      created = req.get('created_in_dispatch', [])
      ob('dispatch:')
      if ch is None:
        d = req['deliveries']
        if P0 or created:
          violate('dispatch:no-member-chosen', 'request %d reached no member although %d members were usable' % (
            req['id'], len(P0)), {}, {'P0': [repr(c) for c in P0]})
        elif not (len(d) == 1 and isinstance(d[0][2].error, NoMembersError)):
          violate('dispatch:no-members-error', 'empty balancer did not fail the request at once with '
                  'NoMembersError: %r' % ([repr(x[2].error) for x in d],), {})
        elif ss.truth and opened[0] and not (ss.pending or ss.loading or ss.closed) and not w.callback_errors:
          # (not judged once an injected Close() error has escaped from a notification: the tree skips
          # the replacement of the departing member then, which the statements do not cover)
          # every notification has been delivered and the server set is not empty: the balancer has
          # members, it just is not using any of them
          violate('dispatch:no-members-error-with-members', 'request %d failed with NoMembersError although the server set '
                  'has %d member(s) (none of them in use by the balancer)' % (req['id'], len(ss.truth)),
                  {'idle_known': len(getattr(lb, '_idle_endpoints', ()))},
                  {'logs': [l[2][:200] for l in env.logs[-6:]], 'heap': heap_dump(), 'pending': sorted(map(str, getattr(lb, '_pending_endpoints', ()))), 'callback_errors': w.callback_errors[-3:],
                   'idle': sorted(map(str, getattr(lb, '_idle_endpoints', ()))), 'events': [dict((k, v) for k, v in e.items() if k not in ('seq', 'vt')) for e in env.events[-14:]]})
        else:
          stats['no_member_dispatches'] += 1
          classes.add('no-members')
        return
      if not (ss.pending or ss.loading or ss.closed) and opened[0] and not ss.truth and not w.callback_errors:
        # the server set is empty and every notification has been delivered: there are no members at all
        ob('dispatch:')
        violate('dispatch:member-chosen-with-no-members', 'request %d went to %r although the server set is empty (every notification '
                'has been delivered): it should have failed at once with NoMembersError' % (req['id'], ch),
                {'left_during_loading': ch.removed_step is None})
      if not (ss.pending or ss.loading or ss.closed) and opened[0] and ch.ep not in ss.truth:
        ob('removal:')
        violate('removal:request-to-departed', 'request %d went to %r, which is not in the server set (every '
                'notification has been delivered)' % (req['id'], ch), {'left_during_loading': ch.removed_step is None})
      if ch not in P0 and ch not in created:
        violate('dispatch:outside-candidates', 'request %d went to %r which is not a member in use '
                '(removed at step %r)' % (req['id'], ch, ch.removed_step), {}, {'P0': [repr(c) for c in P0]})
        return
      open_p0 = [c for c in P0 if pre['states'][c] == OPEN]
      st = req['chan_state_at_dispatch']
      came_up = [c for c in req.get('up_during_choice', ()) if c in P0 and c._state == OPEN and not c.close_steps]
      if came_up and not open_p0:
        # no member was open when the dispatch began, one of them came up while the balancer was choosing
        # (it was busy reporting another one down at that moment): the choice it made afterwards is judged
        ob('dispatch:')
        if st != OPEN:
          violate('dispatch:non-open-chosen', 'request %d went to %r (not open) although %r had come up while the balancer was '
                  'still choosing (during its report that another member is down)' % (req['id'], ch, came_up[0]),
                  {'came_up_while_choosing': True}, {'P0': [repr(c) for c in P0], 'heap': heap_dump()})
      if open_p0:
        ob('dispatch:')
        if st != OPEN:
          violate('dispatch:non-open-chosen', 'request %d went to %r (not open) while %d open members were '
                  'in use' % (req['id'], ch, len(open_p0)), {}, {'P0': [repr(c) for c in P0]})
        else:
          least = min(pre['out'][c] for c in open_p0)
          mine = pre['out'].get(ch, 0) - pre['completing'].get(ch, 0)
          if mine > least:
            violate('dispatch:not-least-loaded',
                    'request %d went to %r with %d outstanding while an open member had %d' % (
                      req['id'], ch, mine, least), {},
                    {'loads': {repr(c): pre['out'][c] for c in P0}, 'step': w.step,
                     'heap_before': pre['heap'], 'heap_after': heap_dump(),
                     'recent_events': [dict((k, v) for k, v in e.items() if k != 'seq') for e in env.events[-14:]]})
      else:
        classes.add('all-down-dispatch')

    def check_loads():
      from scales.loadbalancer.heap import HeapBalancerSink as H
      while w.complete_raised:
        r_ = w.complete_raised.pop()
        ob('load:')
        violate('load:completion-raised', 'completing request %d raised %s: %s' % (
          r_['id'], type(r_['complete_raised'][0]).__name__, r_['complete_raised'][0]),
          {'exc': type(r_['complete_raised'][0]).__name__}, {'traceback': r_['complete_raised'][1]})
      total = 0
      for n in w.nodes:
        if n.endpoint is None:
          continue
        ob('load:')
        want = w.model_out(n.channel)
        total += want
        got = attributed_load(n)
        if got != want or got < 0:
          violate('load:mismatch', 'balancer attributes load %d to %r, %d of its requests are outstanding '
                  '(raw load %d, index %d)' % (got, n.channel, want, n.load, n.index), {},
                  {'step': w.step})
          return
      if kind == 'aperture':
        ob('load:')
        if lb._total != total:
          violate('load:total', 'aperture total %d != %d outstanding requests' % (lb._total, total), {})
      for l in env.logs:
        if 'Decrementing load below Zero' in l[2]:
          violate('load:below-zero', 'balancer logged "Decrementing load below Zero"', {})
          del env.logs[:]
          break

    def track_removals(pre, left_eps):
      """Members that were in use before the op and are not any more."""
      now = set(w.heap_channels())
      for ch in pre['chans']:
        if ch in now or ch in tracked_removed:
          continue
        ch.removed_step = w.step
        stats['removals' if ch.ep in left_eps else 'contractions'] += 1
        classes.add('removal' if ch.ep in left_eps else 'contraction')
        # marked-down-ness at the moment of removal survives on the detached node
        # (load >= 0 <=> penalised); the pre-op snapshot may be stale because the
        # same dispatch can resurrect a node and then contract it away
        node = next(n for n in w.nodes if n.channel is ch)
        marked = node.load >= 0
        o = w.model_out(ch)
        cls = ('down+loaded' if o else 'down') if marked else ('loaded' if o else 'idle')
        classes.add('removed:' + cls)
        if pre['size'] >= 3:
          classes.add('removal-at-depth')
        tracked_removed[ch] = {'seen': ch.requests_seen, 'cls': cls}
        ob('removal:')
        if (o == 0 or marked) and not ch.close_steps:
          violate('removal:not-closed', '%r removed while %s but its channel was not closed' % (ch, cls),
                  {'removed': cls})
        if o > 0 and not marked and pre['states'][ch] == OPEN and ch.close_steps:
          violate('removal:closed-while-loaded', '%r removed with %d outstanding requests on an open '
                  'channel and closed at once' % (ch, o), {'removed': cls})

    def check_removed():
      for ch, t in list(tracked_removed.items()):
        ob('removal:')
        if ch.requests_seen != t['seen']:
          violate('removal:request-after-removal', '%r received a request after it was removed at step %d' % (
            ch, ch.removed_step), {'removed': t['cls']})
          t['seen'] = ch.requests_seen
        if w.model_out(ch) == 0:
          if not ch.close_steps:
            violate('removal:drained-not-closed', '%r (removed while %s) has no outstanding requests any '
                    'more but was never closed' % (ch, t['cls']), {'removed': t['cls']})
          del tracked_removed[ch]

    def check_membership():
      if ss.pending or ss.loading or not opened[0] or ss.closed:
        return
      heap_eps = [n.endpoint for n in lb._heap[1:]]
      idle = set(getattr(lb, '_idle_endpoints', ()))
      truth = set(ss.truth)
      ob('membership:')
      eligible = set(heap_eps) | idle
      if len(heap_eps) != len(set(heap_eps)):
        violate('membership:duplicate', 'endpoint appears twice in the balancer: %r' % (sorted(map(str, heap_eps)),), {})
      elif set(heap_eps) & idle:
        violate('membership:active-and-idle', 'endpoints both active and idle: %r' % (
          sorted(map(str, set(heap_eps) & idle)),), {})
      elif [n for n in lb._heap[1:] if getattr(n.channel, 'ep', n.endpoint) != n.endpoint]:
        # what a member is called and where its channel connects to must be the same thing
        bad = [n for n in lb._heap[1:] if getattr(n.channel, 'ep', n.endpoint) != n.endpoint]
        violate('membership:channel-of-other-endpoint', 'the balancer\'s entry for member %s dispatches over a channel '
                'that was created for %s (server set %r)' % (bad[0].endpoint, bad[0].channel.ep, sorted(map(str, truth))),
                {'target_in_server_set': bad[0].channel.ep in truth})
      elif eligible != truth:
        violate('membership:differs', 'balancer can dispatch to %r, server set is %r' % (
          sorted(map(str, eligible)), sorted(map(str, truth))),
          {'missing': bool(truth - eligible), 'extra': bool(eligible - truth)},
          {'step': w.step, 'missing': sorted(map(str, truth - eligible)), 'extra': sorted(map(str, eligible - truth))})

    def chained_dispatch(done_req):
      # the completion has reached the sink above the balancer: the balancer has let go of the request
      ch_ = done_req['channel']
      node_ = next((n_ for n_ in w.nodes if n_.channel is ch_ and n_.endpoint is not None), None)
      if node_ is not None:
        ob('load:')
        # completions of other requests of this member that are travelling up right now (this delivery is nested
        # inside one of them: a Close() that fails what is in flight, run from a completion's own bookkeeping):
        # the balancer lets go of a request before it hands the completion on, so it may have released those
        transit_ = sum(1 for r_ in w.completing if r_ is not done_req and r_['channel'] is ch_ and not r_['deliveries'])
        # ... and a request whose deadline has just fired: the balancer releases it from the deadline's own
        # callback chain, the caller gets its TimeoutError at the end of that chain (this delivery may be nested
        # inside it: the release made the aperture contract and close this member)
        transit_ += sum(1 for r_ in w.requests if r_ is not done_req and r_['channel'] is ch_ and not r_['deliveries']
                        and r_ not in w.completing and r_['timeout'] is not None and r_['vt'] + r_['timeout'] <= env.now + 1e-6)
        if not (w.model_out(ch_) - transit_ <= attributed_load(node_) <= w.model_out(ch_)):
          violate('load:not-released-at-delivery', 'the completion of request %d was handed to the sink above the balancer while '
                  'the balancer still attributes load %d to %r (%d of its requests are outstanding, %d of them with their completion '
                  'on its way up)' % (done_req['id'], attributed_load(node_), ch_, w.model_out(ch_), transit_), {}, {'step': w.step})
      # from the response handler of the sink above the balancer: the completed request is not
      # outstanding any more, a follow-up dispatched right here must see that
      if not opened[0] or ss.pending or ss.loading or ss.closed or rng.random() > 0.1:
        return
      classes.add('dispatch-from-response-handler')
      pre_ = snapshot()
      r2 = w.dispatch(timeout=rng.choice([None, None, 3.0]))
      stats['dispatches'] += 1
      check_dispatch(r2, pre_)
    w.on_delivery = chained_dispatch

    # ---------------------------------------------------------------- open
    opened = [False]
    open_ar = w.top.Open()
    pre_ops = rng.choice([0, 0, 1, 3]) if gs_delay else 0
    if gs_fail:
      classes.add('init-retry')
    deferred = []
    for _ in range(pre_ops):
      # notifications (and requests) while the member list is still loading
      env.advance(gs_delay * rng.random() * 0.6)
      k = rng.random()
      if k < 0.4 and ss.truth:
        ss.leave(rng.choice(sorted(ss.truth, key=str)))
        classes.add('notify-during-loading')
      elif k < 0.8:
        ss.join(rng.choice(pool))
        classes.add('notify-during-loading')
      else:
        deferred.append(w.dispatch(timeout=rng.choice([None, 0.01, 5.0])))
        stats['deferred_dispatches'] += 1
        classes.add('dispatch-before-open')
    guard = 0
    while not open_ar.ready() and guard < 200:
      env.advance(0.1)
      guard += 1
    opened[0] = open_ar.ready()
    env.advance(0.6 if open_mode != 'sync' else 0.0)
    check_loads()
    check_membership()

    # ---------------------------------------------------------------- main loop
    for _ in range(nops):
      w.step += 1
      op = rng.choice(ops)
      pre = snapshot()
      left = set()
      if op == 'dispatch':
        t = rng.choice([None, None, None, 0.02, 0.5, 3.0])
        req = w.dispatch(timeout=t)
        stats['dispatches'] += 1
        check_dispatch(req, pre)
        if len(w.heap_channels()) > pre['size']:
          stats['expansions'] += 1
      elif op == 'complete':
        live = [r for c in w.channels for r in c.inflight]
        if live:
          r = rng.choice(live)
          how = rng.choice(['reply', 'reply', 'reply', 'error'])
          if r['deliveries']:
            classes.add('late-reply-after-timeout')
          w.complete(r, how)
          stats['completions'] += 1
          classes.add('complete:' + how)
      elif op == 'down':
        cands = [c for c in pre['chans'] if c._state == OPEN]
        if cands:
          c = rng.choice(cands)
          c.set_down()
          classes.add('member-down')
          if rng.random() < 0.6:
            for r in list(c.inflight):
              w.complete(r, 'connection-fault')
            classes.add('complete:fault')
      elif op == 'up':
        cands = [c for c in w.channels if c.down and not c.close_steps]
        if cands:
          rng.choice(cands).set_up()
          classes.add('member-up')
      elif op == 'leave':
        if ss.truth and rng.random() < 0.85:
          ep = rng.choice(sorted(ss.truth, key=str))
        else:
          ep = rng.choice(pool)
          classes.add('leave-unknown')
        left.add(ep)
        raising = []
        if rng.random() < 0.12:
          # closing the departing member's idle channel reports an error (peer already gone); the
          # provider logs it and carries on, as the ZooKeeper provider's worker does
          for c in w.channels:
            if c.ep == ep and not c.close_steps and w.model_out(c) == 0:
              c.close_raises = True
              raising.append(c)
        ss.leave(ep)
        if raising:
          env.settle()
          if any(not c.close_raises for c in raising):
            classes.add('close-raises-on-leave')
          for c in raising:
            c.close_raises = False
      elif op == 'join':
        if ss.truth and rng.random() < 0.2:
          ss.join(rng.choice(sorted(ss.truth, key=str)), duplicate=True)
          classes.add('join-duplicate')
        else:
          ep = rng.choice(pool)
          if any(c.ep == ep and c in tracked_removed for c in w.channels):
            classes.add('rejoin-while-draining')
          if any(c.ep == ep for c in w.channels):
            classes.add('rejoin')
          ss.join(ep)
          stats['joins'] += 1
      else:
        if opened[0] and rng.random() < 0.06:
          # the application makes sure the client is open before it uses it (DispatcherOpen again): the
          # balancer is open already, nothing changes
          classes.add('open-called-again')
          w.top.Open()
        if idx % 6 == 3 and rng.random() < 0.15:
          # the wall clock is set back by hours (VM restore, manual reset) between two operations
          env.clock.wall_offset -= rng.choice([7200.0, 86400.0])
          classes.add('wall-clock-steps-back-hours')
        env.advance(rng.choice([0.001, 0.05, 0.6, 2.5]) * rng.random())
      env.settle()
      stats['timeouts'] = sum(1 for r in w.requests if r['deliveries'] and
                              isinstance(r['deliveries'][0][2].error, ScalesTimeout))
      track_removals(pre, left)
      check_removed()
      check_loads()
      check_membership()
      if len(out.violations) >= 6:
        break

    # ---------------------------------------------------------------- drain
    w.step += 1
    w.on_delivery = None        # no chained follow-ups any more: everything is to drain
    for _round in range(4):
      live_ = [r for c in w.channels for r in list(c.inflight)]
      if not live_:
        break
      for r in live_:
        w.complete(r, 'reply')
    env.advance(4.0)       # let remaining timers fire
    check_removed()
    check_loads()
    check_membership()
    # behavioural cross-check at the boundary (heap balancer, every member healthy): under
    # saturating load exactly the current members receive traffic
    if kind == 'heap' and opened[0] and not ss.pending and open_mode != 'flaky' and len(out.violations) < 6:
      for c in w.channels:
        if c.down and not c.close_steps:
          c.set_up()
      env.advance(0.6)
      truth = set(ss.truth)
      if truth and all(c._state == OPEN for c in w.heap_channels()):
        classes.add('saturation-probe')
        probes = [w.dispatch() for _ in range(len(truth))]
        got = [r['channel'].ep for r in probes if r['channel'] is not None]
        ob('membership:')
        if set(got) != truth or len(got) != len(set(got)):
          violate('membership:traffic', 'with %d requests outstanding the members that received one are %r, the '
                  'server set is %r' % (len(truth), sorted(map(str, got)), sorted(map(str, truth))),
                  {'missing': bool(truth - set(got)), 'extra': bool(set(got) - truth)})
        for r in probes:
          if r['channel'] is not None and r in r['channel'].inflight:
            w.complete(r, 'reply')
        env.settle()
    for r in w.requests:
      if len(r['deliveries']) != 1:
        diag['delivery-count'] = diag.get('delivery-count', 0) + 1
    w.top.Close()
    env.settle()
    for e in env.errors:
      violate('greenlet-error:' + e['type'], 'unhandled exception in a balancer greenlet: %s: %s\n%s' % (
        e['type'], e['value'], e['tb'][-400:]), {'exc': e['type']})
    if stats['timeouts']:
      classes.add('complete:timeout')
    if w.closed_with_inflight:
      classes.add('close-fails-inflight')
    out.classes = sorted(classes)
    out.nontrivial = stats['dispatches'] > 0 or stats['removals'] > 0 or stats['joins'] > 0
    out.extra = dict(stats)
    for k, v in diag.items():
      out.extra['diag_other_property:' + k] = v
    out.sig = (kind, min(n0, 9), open_mode, sorted(c for c in classes if ':' in c or c in (
      'removal-at-depth', 'rejoin-while-draining', 'notify-during-loading', 'dispatch-before-open',
      'all-down-dispatch', 'no-members', 'contraction')), nops)
    if idx % 41 == 0:
      out.sample = {'balancer': kind, 'params': {k: v for k, v in lb_params.items()}, 'initial_members': n0,
                    'open_mode': open_mode, 'ops': nops, 'stats': stats, 'classes': sorted(classes),
                    'events_tail': [dict((k, v) for k, v in e.items() if k != 'seq') for e in env.events[-6:]]}
    return out
