"""C17 - async combinators for every completion order (exhaustive for small n)."""
import itertools

from vlib.framework import BaseCheck, CaseResult


def _val(i, outcome):
  """value input i succeeds with: S -> a tuple naming it, N -> None, Z -> 0"""
  return ('v', i) if outcome == 'S' else None if outcome == 'N' else 0


class Boom(Exception):
  pass


class BaseBoom(BaseException):
  """Not an Exception subclass, like gevent.Timeout and GreenletExit."""


def _perms_with_pre(n):
  """Yield (pre_order, post_order): every subset completed before the call, in
  every order, and every order of the rest."""
  idx = list(range(n))
  for k in range(n + 1):
    for pre in itertools.permutations(idx, k):
      rest = [i for i in idx if i not in pre]
      for post in itertools.permutations(rest):
        yield pre, post


class C17(BaseCheck):
  ID = 'C17'
  RULE = ('case = (combinator, n, success/failure assignment); inside a case every subset '
          'completed before the call (in every order) x every completion order of the rest is '
          'executed for n<=4 (quick) / n<=7 (thorough), sampled for larger n, each with the remaining completions one per '
          'tick and grouped into ticks without a yield in between (every grouping for n<=3, sampled above), also with the first '
          'tick right after the call; Unwrap chains of '
          'depth 0-6 with failure at each level and every completion order; ContinueWith/Map '
          'with raising continuations (Exception, a BaseException subclass, gevent.Timeout), before/after completion, on_hub or not. The spec is '
          'evaluated after every completion step with the loop run to idle; an exception escaping from the combinator call itself is a violation. non-trivial = at '
          'least one step checked; distinct by (combinator, n, assignment)')
  ANCHORS = ('scales.asynchronous:AsyncResult.WhenAll', 'scales.asynchronous:AsyncResult.WhenAny',
             'scales.asynchronous:AsyncResult._UnwrapHelper',
             'scales.asynchronous:AsyncResult.ContinueWith', 'scales.asynchronous:AsyncResult.Map')
  REQUIRED_ANCHORS = ANCHORS
  REQUIRED_CLASSES = ('WhenAll', 'WhenAny', 'Unwrap', 'ContinueWith', 'Map', 'repeated-inputs', 'several-completions-per-tick',
                      'completion-right-after-call')
  ASSUMPTIONS = ('n = 0 inputs is not judged (the statement is vacuous there)',
                 'WhenAny with several inputs already successful at call time may yield any of them')
  QUICK_WALL = 180
  THOROUGH_WALL = 1800
  EXHAUSTIVE = {'quick': True, 'thorough': True}

  def _plan(self, tier):
    plan = []
    nmax = 4 if tier == 'quick' else 7
    for kind in ('WhenAll', 'WhenAny'):
      for n in range(1, nmax + 1):
        for outcome in itertools.product('SF', repeat=n):
          plan.append((kind, n, ''.join(outcome), None))
      # inputs that succeed with a value that is false in a boolean context: None (what Open() results and
      # AsyncResult.Complete() carry) and 0
      for n in range(1, 4):
        for outcome in itertools.product('SFNZ', repeat=n):
          if 'N' in outcome or 'Z' in outcome:
            plan.append((kind, n, ''.join(outcome), None))
      # sampled larger n
      for n in range(nmax + 1, 9):
        for rep in range(6 if tier == 'quick' else 40):
          plan.append((kind, n, None, rep))
    for depth in range(0, 7):
      for fail_at in [None] + list(range(depth + 1)):
        plan.append(('Unwrap', depth, fail_at, None))
    for on_hub in (True, False):
      for outcome in 'SF':
        for fn_kind in ('value', 'raise', 'raise-base', 'raise-timeout', 'none'):
          for pre in (True, False):
            plan.append(('ContinueWith', on_hub, outcome + ':' + fn_kind, pre))
    for outcome in 'SF':
      for fn_kind in ('value', 'raise', 'raise-base', 'ar-value', 'ar-fail', 'ar-pending'):
        for pre in (True, False):
          plan.append(('Map', None, outcome + ':' + fn_kind, pre))
    # one result object at several positions of the input list (a caller that aggregates the same
    # in-flight result twice, or next to the WhenAny it fed)
    for layout in ((0, 0), (0, 1, 0), (1, 0, 1), (0, 0, 0), (0, 1, 1, 0), (0, 1, 2, 1), (2, 0, 1, 0, 2)):
      for kind_ in ('WhenAll', 'WhenAny'):
        plan.append(('Repeats', kind_, layout, None))
    return plan

  def n_cases(self, tier):
    return len(self._plan(tier))

  def setup(self, env, tier):
    self.plan = self._plan(tier)

  # ------------------------------------------------------------------ helpers
  @staticmethod
  def _complete(ar, i, outcome):
    if outcome in 'SNZ':
      ar.set(_val(i, outcome))
    else:
      ar.set_exception(Boom('f%d' % i))

  def _when_all_spec(self, done, outcomes, n):
    failed = [i for i in done if outcomes[i] == 'F']
    if failed:
      return ('fail', set('f%d' % i for i in failed))
    if len(done) == n:
      return ('ok', [_val(i, outcomes[i]) for i in range(n)])
    return ('pending', None)

  def _when_any_spec(self, pre, post_done, outcomes, n):
    pre_succ = [i for i in pre if outcomes[i] in 'SNZ']
    if pre_succ:
      return ('ok-any', [_val(i, outcomes[i]) for i in pre_succ])
    succ = [i for i in post_done if outcomes[i] in 'SNZ']
    if succ:
      return ('ok-any', [_val(succ[0], outcomes[succ[0]])])
    done = list(pre) + list(post_done)
    if len(done) == n:
      if post_done:
        return ('fail', {'f%d' % post_done[-1]})
      return ('fail', set('f%d' % i for i in pre))
    return ('pending', None)

  @staticmethod
  def _observe(ret):
    """What a caller sees: get() without blocking.  A result that carries both a value and
    an exception (set() after set_exception()) is reported as 'both'."""
    if not ret.ready():
      return ('pending', None)
    try:
      v = ret.get(block=False)
    except BaseException as e:  # noqa
      if ret.successful():
        return ('both', (repr(ret.value), str(e)))
      return ('fail', str(e))
    if ret.exception is not None:
      return ('both', (repr(v), str(ret.exception)))
    return ('ok', v)

  def _check(self, out, kind, spec, obs, ctx):
    out.obligations += 1
    ok = False
    if spec[0] == 'pending':
      ok = obs[0] == 'pending'
    elif spec[0] == 'fail':
      ok = obs[0] == 'fail' and obs[1] in spec[1]
    elif spec[0] == 'ok':
      ok = obs[0] == 'ok' and obs[1] == spec[1]
    elif spec[0] == 'ok-any':
      ok = obs[0] == 'ok' and obs[1] in spec[1]
    if not ok:
      mech = '%s:%s-but-%s' % (kind, spec[0], obs[0])
      if kind == 'WhenAny' and ctx.get('pre_failed') and spec[0] != 'fail' and obs[0] == 'fail':
        mech = 'WhenAny:precompleted-failure-short-circuits'
      out.violate(mech, '%s: expected %r, observed %r; %r' % (kind, spec, obs, ctx),
                  {'combinator': kind}, ctx)
    return ok

  # ------------------------------------------------------------------ cases
  def run_case(self, env, rng, idx, tier):
    from scales.asynchronous import AsyncResult
    kind, a, b, c = self.plan[idx]
    out = CaseResult()
    out.classes = [kind]
    if kind in ('WhenAll', 'WhenAny'):
      n = a
      if b is None:
        outcomes = ''.join(rng.choice('SSFSSFN') for _ in range(n))
        orders = []
        for _ in range(30):
          k = rng.randint(0, n)
          perm = list(range(n))
          rng.shuffle(perm)
          orders.append((tuple(perm[:k]), tuple(perm[k:])))
      else:
        outcomes = b
        orders = list(_perms_with_pre(n))
      for pre, post in orders:
        # how the remaining completions are grouped into ticks (no yield to the hub inside a tick):
        # one per tick always; for small n every grouping, otherwise a few, each also with the first
        # tick following the call without a yield in between
        m = len(post)
        groupings = [(tuple((i,) for i in post), True)]
        if m >= 1:
          if n <= 3:
            cuts_list = list(itertools.product((0, 1), repeat=m - 1))
          else:
            cuts_list = [tuple(0 for _ in range(m - 1))] + [tuple(rng.randint(0, 1) for _ in range(m - 1)) for _ in range(2)]
          for cuts in cuts_list:
            groups, cur = [], [post[0]]
            for j, cut in enumerate(cuts):
              if cut:
                groups.append(tuple(cur))
                cur = []
              cur.append(post[j + 1])
            groups.append(tuple(cur))
            for yield_after_call in (True, False):
              if all(len(g_) == 1 for g_ in groups) and yield_after_call:
                continue      # the plain one-per-tick history is already in the list
              groupings.append((tuple(groups), yield_after_call))
        bad = False
        for groups, yield_after_call in groupings:
          ars = [AsyncResult() for _ in range(n)]
          for i in pre:
            self._complete(ars[i], i, outcomes[i])
          env.settle()
          try:
            ret = AsyncResult.WhenAll(ars) if kind == 'WhenAll' else AsyncResult.WhenAny(ars)
          except BaseException as e:  # noqa: whatever the inputs' states, the call returns a result
            out.obligations += 1
            out.violate(kind + ':raised-to-caller', '%s itself raised %s(%s) for outcomes %r with %r complete at the call' % (
              kind, type(e).__name__, e, outcomes, list(pre)), {'combinator': kind})
            bad = True
            break
          ctx = {'n': n, 'outcomes': outcomes, 'pre': list(pre), 'post': list(post), 'ticks': [list(g_) for g_ in groups],
                 'yield_after_call': yield_after_call, 'pre_failed': any(outcomes[i] == 'F' for i in pre)}
          done = list(pre)
          post_done = []
          if any(len(g_) > 1 for g_ in groups):
            out.classes = sorted(set(out.classes) | {'several-completions-per-tick'})
          if not yield_after_call:
            out.classes = sorted(set(out.classes) | {'completion-right-after-call'})
          for step in range(len(groups) + 1):
            if step > 0 or yield_after_call:
              if step == 0:
                env.settle()
              if kind == 'WhenAll':
                spec = self._when_all_spec(done, outcomes, n)
              else:
                spec = self._when_any_spec(pre, post_done, outcomes, n)
              ctx['after_step'] = step
              if not self._check(out, kind, spec, self._observe(ret), dict(ctx)):
                bad = True
                break
            if step < len(groups):
              for i in groups[step]:
                self._complete(ars[i], i, outcomes[i])
                done.append(i)
                post_done.append(i)
              env.settle()
          if bad and len(out.violations) > 5:
            break
        if bad and len(out.violations) > 5:
          break
      out.sig = (kind, n, outcomes)
      out.nontrivial = out.obligations > 0
      if idx % 13 == 0:
        out.sample = {'combinator': kind, 'n': n, 'outcomes': outcomes, 'orders_run': len(orders),
                      'first_order': {'pre': list(orders[0][0]), 'post': list(orders[0][1])}}
    elif kind == 'Unwrap':
      depth, fail_at = a, b
      # chain: level0 -> level1 -> ... -> level(depth) plain value; failure at fail_at
      last = depth if fail_at is None else fail_at
      levels = list(range(last + 1))
      orders = list(itertools.permutations(levels)) if len(levels) <= 5 else \
        [tuple(rng.sample(levels, len(levels))) for _ in range(60)]
      for order in orders:
        for call_after in range(len(order) + 1):
          ars = [AsyncResult() for _ in levels]
          ret = None
          done = set()
          for step in range(len(order) + 1):
            if step == call_after:
              ret = ars[0].Unwrap()
              env.settle()
            if ret is not None:
              # resolved iff levels 0..last are all done
              if all(l in done for l in levels):
                spec = ('fail', {'f%d' % fail_at}) if fail_at is not None else ('ok', 'plain')
              else:
                spec = ('pending', None)
              self._check(out, 'Unwrap', spec, self._observe(ret),
                          {'depth': depth, 'fail_at': fail_at, 'order': list(order),
                           'unwrap_called_after': call_after, 'step': step})
            if step < len(order):
              l = order[step]
              if l == fail_at:
                ars[l].set_exception(Boom('f%d' % l))
              elif l == last:
                ars[l].set('plain')
              else:
                ars[l].set(ars[l + 1])
              done.add(l)
              env.settle()
          if len(out.violations) > 5:
            break
      out.sig = (kind, depth, fail_at)
      out.nontrivial = out.obligations > 0
      if fail_at is None:
        out.sample = {'combinator': 'Unwrap', 'depth': depth, 'orders': len(orders)}
    elif kind == 'ContinueWith':
      on_hub, spec_s, pre = a, b, c
      outcome, fn_kind = spec_s.split(':')
      calls = []

      def fn(ar_):
        calls.append(ar_)
        if fn_kind == 'raise':
          raise Boom('cont')
        if fn_kind == 'raise-base':
          raise BaseBoom('cont')
        if fn_kind == 'raise-timeout':
          import gevent
          raise gevent.Timeout(0.25)
        return 'cv' if fn_kind == 'value' else None
      src = AsyncResult()
      if pre:
        self._complete(src, 0, outcome)
        env.settle()
      try:
        ret = src.ContinueWith(fn, on_hub=on_hub)
      except BaseException as e:  # noqa: the continuation's exception belongs in the returned result
        out.obligations += 1
        out.violate('ContinueWith:raised-to-caller', 'ContinueWith itself raised %s(%s) instead of capturing it in the result '
                    'it returns' % (type(e).__name__, e), {'combinator': kind, 'pre': pre, 'on_hub': on_hub}, spec_s)
        out.sig = (kind, on_hub, spec_s, pre)
        out.nontrivial = True
        out.classes = [kind]
        return out
      if not pre:
        env.settle()
        out.obligations += 1
        if calls or ret.ready():
          out.violate('ContinueWith:ran-before-completion', 'continuation ran before completion',
                      {'combinator': kind}, spec_s)
        self._complete(src, 0, outcome)
      env.settle()
      env.settle()
      out.obligations += 2
      if len(calls) != 1 or calls[0] is not src:
        out.violate('ContinueWith:call-count', 'continuation ran %d times' % len(calls),
                    {'combinator': kind}, spec_s)
      want = ('fail', {'cont'}) if fn_kind in ('raise', 'raise-base') else \
        ('fail', {'0.25 seconds'}) if fn_kind == 'raise-timeout' else ('ok', 'cv' if fn_kind == 'value' else None)
      self._check(out, kind, want, self._observe(ret), {'case': spec_s, 'pre': pre, 'on_hub': on_hub})
      # a later, second completion attempt must not re-run it
      env.advance(0.01)
      out.obligations += 1
      if len(calls) != 1:
        out.violate('ContinueWith:call-count', 'continuation re-ran', {'combinator': kind}, spec_s)
      out.sig = (kind, on_hub, spec_s, pre)
      out.nontrivial = True
      out.sample = None
    elif kind == 'Map':
      spec_s, pre = b, c
      outcome, fn_kind = spec_s.split(':')
      calls = []
      inner = AsyncResult()

      def fn(v):
        calls.append(v)
        if fn_kind == 'raise':
          raise Boom('map')
        if fn_kind == 'raise-base':
          raise BaseBoom('map')
        if fn_kind.startswith('ar'):
          return inner
        return ('mapped', v)
      src = AsyncResult()
      if pre:
        self._complete(src, 0, outcome)
        env.settle()
      try:
        ret = src.Map(fn)
      except BaseException as e:  # noqa
        out.obligations += 1
        out.violate('Map:raised-to-caller', 'Map itself raised %s(%s) instead of returning a failed result' % (
          type(e).__name__, e), {'combinator': kind, 'pre': pre}, spec_s)
        out.sig = (kind, spec_s, pre)
        out.nontrivial = True
        out.classes = [kind]
        return out
      if not pre:
        env.settle()
        out.obligations += 1
        if calls or ret.ready():
          out.violate('Map:ran-before-completion', 'map fn ran before completion',
                      {'combinator': kind}, spec_s)
        self._complete(src, 0, outcome)
      env.settle()
      env.settle()
      out.obligations += 1
      if outcome == 'F':
        if calls:
          out.violate('Map:fn-applied-to-failure', 'map fn was applied to a failed result',
                      {'combinator': kind}, spec_s)
        want = ('fail', {'f0'})
      else:
        if calls != [('v', 0)]:
          out.violate('Map:call-args', 'map fn calls: %r' % (calls,), {'combinator': kind}, spec_s)
        if fn_kind == 'value':
          want = ('ok', ('mapped', ('v', 0)))
        elif fn_kind in ('raise', 'raise-base'):
          want = ('fail', {'map'})
        else:
          self._check(out, kind, ('pending', None), self._observe(ret), {'case': spec_s, 'phase': 'inner pending'})
          if fn_kind == 'ar-value':
            inner.set('iv')
            want = ('ok', 'iv')
          elif fn_kind == 'ar-fail':
            inner.set_exception(Boom('inner'))
            want = ('fail', {'inner'})
          else:
            want = ('pending', None)
          env.settle()
          env.settle()
      self._check(out, kind, want, self._observe(ret), {'case': spec_s, 'pre': pre})
      out.sig = (kind, spec_s, pre)
      out.nontrivial = True
    elif kind == 'Repeats':
      comb, layout = a, b
      m = max(layout) + 1
      n = len(layout)
      out.classes = [comb, 'repeated-inputs']
      nsub = 0
      for outcomes in itertools.product('SF', repeat=m):
        for npre in range(m + 1):
          for pre in itertools.combinations(range(m), npre):
            rest = [j for j in range(m) if j not in pre]
            for order in itertools.permutations(rest):
              nsub += 1
              bases = [AsyncResult() for _ in range(m)]
              for j in pre:
                self._complete(bases[j], j, outcomes[j])
              env.settle()
              ars = [bases[j] for j in layout]
              try:
                ret = AsyncResult.WhenAll(ars) if comb == 'WhenAll' else AsyncResult.WhenAny(ars)
              except BaseException as e:  # noqa
                out.obligations += 1
                out.violate(comb + ':raised-to-caller', '%s raised %s(%s) for a list with repeated inputs %r' % (
                  comb, type(e).__name__, e, layout), {'combinator': comb, 'repeats': True})
                continue
              done = list(pre)
              post_done = []
              ctx = {'layout': list(layout), 'outcomes': ''.join(outcomes), 'pre': list(pre), 'order': list(order),
                     'pre_failed': any(outcomes[j] == 'F' for j in pre)}
              steps = [None] + list(order)
              bad = False
              for st in steps:
                if st is not None:
                  self._complete(bases[st], st, outcomes[st])
                  done.append(st)
                  post_done.append(st)
                env.settle()
                if comb == 'WhenAll':
                  failed = [j for j in done if outcomes[j] == 'F']
                  if failed:
                    spec = ('fail', set('f%d' % j for j in failed))
                  elif len(done) == m:
                    spec = ('ok', [('v', j) for j in layout])
                  else:
                    spec = ('pending', None)
                else:
                  spec = self._when_any_spec(pre, post_done, outcomes, m)
                if not self._check(out, comb, spec, self._observe(ret), dict(ctx, after_step=st, repeats=True)):
                  bad = True
                  break
              if bad and len(out.violations) >= 4:
                break
            if len(out.violations) >= 4:
              break
          if len(out.violations) >= 4:
            break
        if len(out.violations) >= 4:
          break
      out.sig = ('Repeats', comb, layout)
      out.nontrivial = nsub > 0
      out.extra = {'repeat_histories': nsub}
    for e in env.errors:
      out.violate('greenlet-error', 'unhandled exception: %s: %s' % (e['type'], e['value']),
                  {'combinator': kind}, e)
    return out


CHECK = C17()
