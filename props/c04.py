"""C04 - per-member load is conserved; removed members drain, then close."""
from props.lbcommon import LBCheck
from props.fullcommon import FullCheck


class _FullStackLoad(FullCheck):
  """Every 4th case: a complete client stack (real transports, pools, timeout sink) on the
  simulated network; judged at final quiescence only."""
  ID = 'C04'
  FOCUS = ('load:', 'removal:')
  REQUIRED_CLASSES = ()

  def bias(self, rng):
    return {'membership': 0.5, 'scripted': 0.7, 'dead_waiter_drain': 0.6}


class C04(LBCheck):
  ID = 'C04'
  FOCUS = ('load:', 'removal:')
  RULE = ('same histories as C03 with more removals and every completion kind; after every operation, '
          'for every node the balancer ever created (recording Node subclass): attributed load '
          '(load - Idle mod Penalty) == outstanding requests of that member incarnation in the '
          'reference model, never negative, aperture total == sum; "Decrementing load below Zero" '
          'never logged. Removal/contraction: no request afterwards, Close at once iff idle or marked '
          'down, else exactly when drained. Every 4th case instead drives a complete real client stack '
          '(C01\'s scenarios: real transports, pools, timeouts, faults, membership changes) and requires every '
          'balancer node to carry load 0 at final quiescence (all calls completed, quiet for 4 T_max) and no '
          'client-side connection to a departed member to be open any more; 60% of the pooled Thrift histories end with the last member\'s pool saturated by slow calls, further calls expiring in its queue, the member leaving and the slow calls completing afterwards. '
          'non-trivial = a dispatch or removal judged; distinct as C03')
  REQUIRED_CLASSES = ('heap', 'aperture', 'removed:idle', 'removed:loaded', 'removed:down', 'removed:down+loaded',
                      'rejoin-while-draining', 'complete:reply', 'complete:error', 'complete:timeout',
                      'complete:fault', 'late-reply-after-timeout', 'contraction', 'full-stack', 'close-fails-inflight', 'drain-with-dead-waiters', 'thrift', 'mux')
  ASSUMPTIONS = ('white-box read of node.load, as named by the property (observe_at)',)

  def run_case(self, env, rng, idx, tier):
    if idx % 4 == 3:
      if not hasattr(self, '_full'):
        self._full = _FullStackLoad()
      res = self._full.run_case(env, rng, idx // 4, tier)      # both parities: the stack kind alternates with the index
      res.classes = sorted(set(res.classes) | {'full-stack'})
      res.sig = ('full-stack', res.sig)
      return res
    return LBCheck.run_case(self, env, rng, idx, tier)

  def profile(self, rng, tier):
    return {'dispatch': 40, 'complete': 24, 'down': 6, 'up': 3, 'leave': 12, 'join': 9, 'advance': 8}


CHECK = C04()
