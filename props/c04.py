"""C04 - per-member load is conserved; removed members drain, then close."""
from props.lbcommon import LBCheck


class C04(LBCheck):
  ID = 'C04'
  FOCUS = ('load:', 'removal:')
  RULE = ('same histories as C03 with more removals and every completion kind; after every operation, '
          'for every node the balancer ever created (recording Node subclass): attributed load '
          '(load - Idle mod Penalty) == outstanding requests of that member incarnation in the '
          'reference model, never negative, aperture total == sum; "Decrementing load below Zero" '
          'never logged. Removal/contraction: no request afterwards, Close at once iff idle or marked '
          'down, else exactly when drained. non-trivial = a dispatch or removal judged; distinct as C03')
  REQUIRED_CLASSES = ('heap', 'aperture', 'removed:idle', 'removed:loaded', 'removed:down', 'removed:down+loaded',
                      'rejoin-while-draining', 'complete:reply', 'complete:error', 'complete:timeout',
                      'complete:fault', 'late-reply-after-timeout', 'contraction')
  ASSUMPTIONS = ('white-box read of node.load, as named by the property (observe_at)',)

  def profile(self, rng, tier):
    return {'dispatch': 40, 'complete': 24, 'down': 6, 'up': 3, 'leave': 12, 'join': 9, 'advance': 8}


CHECK = C04()
