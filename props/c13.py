"""C13 - ThriftMux frames are byte-exact for every message, tag and context.

Direct drive of the real serializer sink chain, `_BuildHeader`, `ReadHeader` and
`Unmarshal`; every produced frame is decoded by the independent codec in
vlib/muxcodec.py and the Thrift payload by the Thrift library itself."""
import io
import struct

from vlib.framework import BaseCheck, CaseResult

TAG_BOUNDARIES = [0, 1, 2, 3, 127, 128, 255, 256, 257, 32767, 32768, 65535, 65536, 65537,
                  (1 << 23) - 1, 1 << 23, (1 << 23) + 1, (1 << 24) - 3, (1 << 24) - 2, (1 << 24) - 1]
REPLY_TYPES = [('Rdispatch', -2), ('Rerr', -128), ('BAD_Rerr', 127), ('Rping', -65)]
CHUNK = 4096
NCHUNKS = (1 << 24) // CHUNK

ASCII = ['a', 'key', 'trace-id', 'com.example.ctx', 'X' * 40, 'k.with.dots', 'UPPER', 'sp ace', '100% %s', '{0}{x}']
UTF8 = ['héllo', 'ü', '日本語', 'café-€', '\U0001f600', 'aé' * 9]


def gen_text(rng, allow_long=True):
  k = rng.random()
  if k < 0.08:
    return ''
  if k < 0.5:
    return rng.choice(ASCII) + (str(rng.randint(0, 999)) if rng.random() < 0.5 else '')
  if k < 0.85:
    return rng.choice(UTF8) + (rng.choice(ASCII) if rng.random() < 0.4 else '')
  if allow_long and k < 0.93:
    n = rng.choice([255, 256, 1000, 8000, 32767, 16000])
    if rng.random() < 0.5:
      return 'L' * n
    s = 'é' * (n // 2)   # 2 bytes per char -> n bytes (<= 32767)
    return s
  return ''.join(chr(rng.choice([rng.randint(32, 126), rng.randint(0xa1, 0x2ff), rng.randint(0x4e00, 0x4eff)]))
                 for _ in range(rng.randint(1, 30)))


class _Capture(object):
  """Terminal sink recording what the serializer hands to the transport."""
  def __init__(self):
    self.requests = []
    self.state = 2

  def AsyncProcessRequest(self, sink_stack, msg, stream, headers):
    self.requests.append((msg, stream, headers))

  def AsyncProcessResponse(self, sink_stack, context, stream, msg):
    self.responses.append((stream, msg))


class _CaptureProvider(object):
  def __init__(self):
    self.sink = _Capture()

  def CreateSink(self, props):
    return self.sink


class _ReplyCapture(object):
  def __init__(self):
    self.got = []

  def AsyncProcessResponse(self, sink_stack, context, stream, msg):
    self.got.append(msg)


class _Sock(object):
  host, port = 'h', 1

  def isOpen(self):
    return False


class C13(BaseCheck):
  ID = 'C13'
  RULE = ('two case kinds. (1) header chunk: for 4096 consecutive tags (all 2^24 tags in thorough '
          '= exhaustive, 96 seeded chunks + boundary tags in quick) ReadHeader must invert the '
          'reply-header writer for Rdispatch/Rerr/BAD_Rerr/Rping, and _BuildHeader must produce the '
          'exact 8 header bytes for Tdispatch/Tdiscarded/Tping. (2) frame batch: 12 Tdispatch frames '
          'built by the real [ClientId ->] serializer sink + _BuildHeader from generated context '
          'dictionaries (ASCII / multi-byte UTF-8 / empty / up to 32767-byte strings), deadlines (15% of them already past), '
          'client ids, methods and argument values of two Thrift interfaces; 4 Tdiscarded frames; '
          '10 replies (Rdispatch OK/ERROR/NACK with reply contexts, Rerr, BAD_Rerr) pushed through '
          'the real reply path. (3) wire: every 5th batch instead runs a real ThriftMux client from the public '
          'builder (ASCII / non-ASCII / long client ids, per-call deadlines) against the simulated peer, whose '
          'independent decoder must recover client id, deadline, empty dst/dtab and the call from every frame '
          'actually written, and exactly one Tdiscarded per unanswered call that timed out (several in the same '
          'instant), naming its tag; in half of the wire cases three large requests are written back to back '
          'from 29 s after the open, each blocked 4.4 s behind a partial frame, so that the periodic ping comes due '
          'while a frame is half written. non-trivial = at least one frame decoded; distinct by (kind, '
          'string classes present, tag classes, reply kinds)')
  ANCHORS = ('scales.thriftmux.serializer:MessageSerializer._WriteContext',
             'scales.thriftmux.serializer:MessageSerializer._Marshal_Tdiscarded',
             'scales.thriftmux.serializer:MessageSerializer._Unmarshal_Rdispatch',
             'scales.thriftmux.sink:ThriftMuxMessageSerializerSink.ReadHeader',
             'scales.thriftmux.sink:SocketTransportSink._BuildHeader')
  REQUIRED_ANCHORS = ANCHORS
  REQUIRED_CLASSES = ('headers', 'ctx:named-like-the-deadline', 'ctx:ascii', 'ctx:utf8', 'ctx:empty', 'ctx:long', 'ctx:none',
                      'deadline', 'client-id', 'reply:OK', 'reply:ERROR', 'reply:NACK', 'reply:Rerr',
                      'reply:BAD_Rerr', 'tdiscarded', 'wire', 'wire:requests-while-opening', 'wire:simultaneous-discards', 'wire:stalled-across-ping',
                      'wire:short-sends', 'wire:after-unserialisable-call', 'deadline:already-past', 'sibling-service-marshalled-first', 'wire:every-write-stalls', 'wire:transient-write-error-mid-frame')
  ASSUMPTIONS = ('context keys/values are text; encoded length of each <= 32767 bytes (int16 length field)',
                 'deadline context = (whole-second wall-clock timestamp in ns, absolute deadline in ns), '
                 'deadline compared with 1us tolerance for the float->ns conversion')
  QUICK_WALL = 180
  THOROUGH_WALL = 1800
  MIN_DISTINCT = 10
  EXHAUSTIVE = {'thorough': True}

  def n_cases(self, tier):
    return 96 + 400 if tier == 'quick' else NCHUNKS + 40000

  def setup(self, env, tier):
    from scales.thriftmux.sink import SocketTransportSink
    self.nheader = 96 if tier == 'quick' else NCHUNKS
    self.transport = SocketTransportSink(_Sock(), 'svc')

  # ---------------------------------------------------------------- headers
  def _header_chunk(self, env, rng, idx, tier, out):
    from scales.thriftmux.sink import ThriftMuxMessageSerializerSink as S
    from vlib import muxcodec as mc
    if tier == 'thorough':
      base = idx * CHUNK
      tags = range(base, base + CHUNK)
      extra = []
    else:
      base = rng.randrange(NCHUNKS) * CHUNK
      tags = range(base, base + CHUNK)
      extra = TAG_BOUNDARIES
    rh = S.ReadHeader
    bh = self.transport._BuildHeader
    bad = 0
    n = 0
    for tag in list(tags) + extra:
      b3 = bytes([(tag >> 16) & 0xff, (tag >> 8) & 0xff, tag & 0xff])
      for name, typ in REPLY_TYPES:
        n += 1
        got = rh(io.BytesIO(struct.pack('>b', typ) + b3 + b'xx'))
        if got != (typ, tag):
          bad += 1
          if bad <= 2:
            out.violate('ReadHeader:not-inverse',
                        'ReadHeader(header(%s=%d, tag=%d)) == %r' % (name, typ, tag, got),
                        {'reply_type': name}, {'type': typ, 'tag': tag, 'got': list(got)})
      for name, typ, ln in (('Tdispatch', 2, 17), ('Tdiscarded', 66, 3), ('Tping', 65, 0)):
        n += 1
        got = bh(tag, typ, ln)
        want = struct.pack('>ib', 4 + ln, typ) + b3
        if got != want:
          bad += 1
          if bad <= 2:
            out.violate('BuildHeader:bytes', '_BuildHeader(tag=%d, %s, len=%d) == %s, expected %s' % (
              tag, name, ln, got.hex(), want.hex()), {'msg_type': name}, None)
    out.obligations += n
    out.classes = ['headers']
    out.nontrivial = True
    out.sig = ('headers', base // CHUNK)
    out.extra = {'header_checks': n}
    if idx % 40 == 0:
      out.sample = {'kind': 'header chunk', 'first_tag': base, 'tags': CHUNK,
                    'checks': n, 'example': {'type': -2, 'tag': base + 5,
                                             'ReadHeader': list(rh(io.BytesIO(mc.reply_header(-2, base + 5))))}}

  # ---------------------------------------------------------------- frames
  def _thrift_call_ok(self, payload, module, method, args, kwargs):
    from thrift.protocol.TBinaryProtocol import TBinaryProtocol
    from thrift.transport.TTransport import TMemoryBuffer
    prot = TBinaryProtocol(TMemoryBuffer(payload))
    name, mtype, seqid = prot.readMessageBegin()
    a = getattr(module, method + '_args')()
    a.read(prot)
    prot.readMessageEnd()
    want = getattr(module, method + '_args')(*args, **kwargs)
    # a method declared oneway (no result struct) is sent with message type ONEWAY (4), every other one as CALL (1)
    want_type = 1 if hasattr(module, method + '_result') else 4
    return name == method and mtype == want_type and a == want, (name, mtype, repr(a))

  def _gen_call(self, rng):
    from vlib.gen.verifsvc import VerifService, ExtService, ttypes
    m = rng.choice(['echo', 'add', 'swap', 'flag', 'ping', 'blob', 'names', 'extra', 'fail', 'notify', 'concat'])
    if m == 'concat':       # parameters numbered out of order in the IDL
      return VerifService, m, (gen_text(rng, False), gen_text(rng, False)), {}
    if m == 'notify':       # declared oneway
        return VerifService, m, (gen_text(rng, False),), {}
    if m == 'echo' or m == 'fail':
      return VerifService, m, (gen_text(rng, False),), {}
    if m == 'extra':
      return ExtService, m, (gen_text(rng, False),), {}
    if m == 'add':
      return VerifService, m, (rng.randint(-2**31, 2**31 - 1),), {'b': rng.randint(-2**63, 2**63 - 1)}
    if m == 'swap':
      p = ttypes.Pair(gen_text(rng, False), rng.randint(-5, 5), rng.choice([None, b'', bytes(rng.getrandbits(8) for _ in range(rng.randint(0, 300)))]),
                      [rng.randint(-9, 9) for _ in range(rng.randint(0, 5))], {gen_text(rng, False): 'v'})
      return VerifService, m, (p,), {}
    if m == 'flag':
      return VerifService, m, (rng.random() < 0.5, rng.random() * 1e6), {}
    if m == 'ping':
      return VerifService, m, (), {}
    if m == 'blob':
      n = rng.choice([0, 1, 100, 5000, 65536])
      return VerifService, m, (bytes(rng.getrandbits(8) for _ in range(min(n, 2000))) * max(1, n // 2000),), {}
    return VerifService, 'names', ({gen_text(rng, False): rng.randint(0, 9) for _ in range(rng.randint(0, 4))},), {}

  def _frame_batch(self, env, rng, idx, tier, out):
    from scales.constants import SinkProperties, TransportHeaders
    from scales.message import Deadline, MethodCallMessage, MethodReturnMessage, ServerError
    from scales.sink import ClientMessageSinkStack
    from scales.thriftmux.sink import ThriftMuxMessageSerializerSink, ClientIdInterceptorSink, SocketTransportSink
    from vlib import muxcodec as mc
    from vlib.gen.verifsvc import VerifService, ExtService, ttypes
    from thrift.protocol.TBinaryProtocol import TBinaryProtocol
    from thrift.transport.TTransport import TMemoryBuffer
    from thrift.Thrift import TApplicationException
    classes = set()
    cap = _CaptureProvider()
    Iface = ExtService.Iface
    props = {SinkProperties.ServiceInterface: Iface, SinkProperties.Label: 'svc'}
    ser = ThriftMuxMessageSerializerSink(cap, None, props)

    class _P(object):
      def CreateSink(self, p):
        return ser
    client_id = rng.choice([None, None, 'client', 'cliént-€', 'svc.prod.role'])
    if client_id is not None:
      Params = ClientIdInterceptorSink.Builder.PARAMS_CLASS
      top = ClientIdInterceptorSink(_P(), Params(client_id=client_id), props)
      classes.add('client-id')
    else:
      top = ser
    frames = 0
    if idx % 3 == 1:
      # another client of this process talks to a sibling service (same base service, a method of the
      # same name with another argument struct) and has marshalled a call before this one does
      from vlib.gen.verifsvc import Ext2Service
      classes.add('sibling-service-marshalled-first')
      cap2 = _CaptureProvider()
      ser2 = ThriftMuxMessageSerializerSink(cap2, None, {SinkProperties.ServiceInterface: Ext2Service.Iface,
                                                         SinkProperties.Label: 'svc2'})
      st2 = ClientMessageSinkStack()
      st2.Push(_ReplyCapture(), None)
      m2 = MethodCallMessage(Ext2Service.Iface, 'extra', (7, 'decoy'), {})
      m2.properties['__Endpoint'] = None
      ser2.AsyncProcessRequest(st2, m2, None, {})
    for _ in range(12):
      module, method, args, kwargs = self._gen_call(rng)
      msg = MethodCallMessage(Iface, method, args, kwargs)
      nctx = rng.choice([0, 0, 1, 2, 3, 5, 20])
      ctx = {}
      while len(ctx) < nctx:
        k = gen_text(rng)
        if k.startswith('__') or k in ('com.twitter.finagle.Deadline', ClientIdInterceptorSink.CLIENT_ID_HEADER):
          continue
        ctx[k] = gen_text(rng)
      for k, v in ctx.items():
        msg.properties[k] = v
        for s in (k, v):
          if s == '':
            classes.add('ctx:empty')
          elif len(s.encode('utf-8')) >= 255:
            classes.add('ctx:long')
          elif all(ord(c) < 128 for c in s):
            classes.add('ctx:ascii')
          else:
            classes.add('ctx:utf8')
      if not ctx:
        classes.add('ctx:none')
      msg.properties['__Endpoint'] = None
      deadline = None
      if rng.random() < 0.6:
        deadline = env.now + rng.choice([0.005, 1, 10, 59.999, 3600]) * rng.random()
        if rng.random() < 0.15:
          # a deadline that has just passed, or passed long ago, when the frame is built (nothing above
          # the serializer stopped the call): it is a supplied context like any other
          deadline = env.now - rng.choice([0.0, 0.001, 5.0, 86400.0])
          classes.add('deadline:already-past')
        msg.properties[Deadline.KEY] = deadline
        classes.add('deadline')
        if rng.random() < 0.2:
          # a caller that forwards its upstream's contexts by name, the deadline's among them: the call's own
          # deadline is the one the frame carries, once (the entry count is part of the frame)
          msg.properties['com.twitter.finagle.Deadline'] = rng.choice(['upstream-deadline', '', gen_text(rng)])
          classes.add('ctx:named-like-the-deadline')
      cap.sink.requests = []
      stack = ClientMessageSinkStack()
      rc = _ReplyCapture()
      stack.Push(rc)
      top.AsyncProcessRequest(stack, msg, None, {})
      out.obligations += 1
      if len(cap.sink.requests) != 1:
        why = rc.got[0].error if rc.got and getattr(rc.got[0], 'error', None) else None
        out.violate('Tdispatch:serialize-failed', 'serializer did not forward the message: %r' % (why,),
                    {'err': type(why).__name__}, {'ctx': ctx, 'method': method})
        continue
      _, buf, headers = cap.sink.requests[0]
      tag = rng.choice(TAG_BOUNDARIES[2:-1] + [rng.randint(2, (1 << 24) - 2) for _ in range(6)])
      frame = self.transport._BuildHeader(tag, headers[TransportHeaders.MessageType], buf.tell()) + buf.getvalue()
      frames += 1
      want_ctx = {k.encode('utf-8'): v.encode('utf-8') for k, v in ctx.items()}
      if client_id is not None:
        want_ctx[mc.CLIENT_ID_KEY] = client_id.encode('utf-8')
      facts = {'nonascii': any(any(ord(c) > 127 for c in s) for kv in list(ctx.items()) + [('', client_id or '')] for s in kv)}
      try:
        d = mc.decode_frame(frame)
      except mc.FrameError as e:
        out.violate('Tdispatch:undecodable', 'independent decoder rejects the frame: %s' % e, facts,
                    {'ctx': ctx, 'client_id': client_id, 'method': method, 'frame_head': frame[:64]})
        continue
      out.obligations += 6
      got_ctx = dict(d.get('contexts', []))
      dl = got_ctx.pop(mc.DEADLINE_KEY, None)
      if d['type'] != 2 or d['tag'] != tag:
        out.violate('Tdispatch:type-tag', 'decoded type/tag %r/%r, supplied 2/%r' % (d['type'], d['tag'], tag), facts)
      if len(d['contexts']) != len(want_ctx) + (1 if deadline is not None else 0) or got_ctx != want_ctx:
        out.violate('Tdispatch:contexts', 'decoded contexts differ from the supplied ones', facts,
                    {'supplied': {k.decode(): v.decode() for k, v in want_ctx.items()},
                     'decoded': [(k, v) for k, v in d['contexts']][:8]})
      if d['dst'] != b'' or d['dtab'] != []:
        out.violate('Tdispatch:dst-dtab', 'dst/dtab not empty: %r %r' % (d['dst'], d['dtab']), facts)
      if deadline is not None:
        if dl is None:
          out.violate('Tdispatch:deadline-missing', 'no deadline context', facts)
        else:
          try:
            ts, dns = mc.decode_deadline(dl)
            if ts != int(env.now) * 10**9 or abs(dns - deadline * 1e9) > 1000:
              out.violate('Tdispatch:deadline-value', 'deadline context (%d, %d) for now=%r deadline=%r' % (
                ts, dns, env.now, deadline), facts)
          except mc.FrameError as e:
            out.violate('Tdispatch:deadline-value', str(e), facts)
      elif dl is not None:
        out.violate('Tdispatch:deadline-unexpected', 'deadline context without a deadline', facts)
      try:
        ok, seen = self._thrift_call_ok(d['payload'], module, method, args, kwargs)
      except Exception as e:  # noqa
        ok, seen = False, repr(e)
      if not ok:
        out.violate('Tdispatch:payload', 'Thrift library decodes the payload to %r, call was %s%r%r' % (
          seen, method, args, kwargs), facts)
    # ---- Tdiscarded
    for _ in range(4):
      t = rng.choice(TAG_BOUNDARIES[2:-1] + [rng.randint(2, (1 << 24) - 2)])
      msg, buf, headers = SocketTransportSink._CreateDiscardMessage(t)
      frame = self.transport._BuildHeader(0, headers[TransportHeaders.MessageType], buf.tell()) + buf.getvalue()
      frames += 1
      classes.add('tdiscarded')
      out.obligations += 1
      try:
        d = mc.decode_frame(frame)
        if d['type'] != mc.T_DISCARDED or d['discard_tag'] != t or d['why'] != b'Client timeout' or d['tag'] != 0:
          out.violate('Tdiscarded:content', 'decoded %r for discarded tag %d' % (d, t), {})
      except mc.FrameError as e:
        out.violate('Tdiscarded:undecodable', str(e), {})
    # ---- replies through the real reply path
    reply_kinds = set()
    for _ in range(10):
      kind = rng.choice(['OK', 'OK', 'ERROR', 'NACK', 'Rerr', 'BAD_Rerr'])
      reply_kinds.add(kind)
      classes.add('reply:' + kind)
      tag = rng.choice(TAG_BOUNDARIES[2:-1] + [rng.randint(2, (1 << 24) - 2)])
      rctx = [(gen_text(rng).encode('utf-8')[:32767], gen_text(rng).encode('utf-8')[:32767])
              for _ in range(rng.choice([0, 0, 1, 3]))]
      text = gen_text(rng, False)
      want_val = None
      if kind == 'OK':
        tb = TMemoryBuffer()
        p = TBinaryProtocol(tb)
        want_val = gen_text(rng, False)
        p.writeMessageBegin('echo', 2, 0)
        VerifService.echo_result(success=want_val).write(p)
        p.writeMessageEnd()
        body = mc.rdispatch_body(mc.ST_OK, rctx, tb.getvalue())
        typ = mc.R_DISPATCH
      elif kind == 'ERROR':
        body = mc.rdispatch_body(mc.ST_ERROR, rctx, text.encode('utf-8'))
        typ = mc.R_DISPATCH
      elif kind == 'NACK':
        body = mc.rdispatch_body(mc.ST_NACK, rctx, b'')
        typ = mc.R_DISPATCH
      else:
        body = text.encode('utf-8')
        typ = mc.R_ERR if kind == 'Rerr' else mc.BAD_R_ERR
      stream = io.BytesIO(mc.reply_header(typ, tag) + body)
      stack = ClientMessageSinkStack()
      rc = _ReplyCapture()
      stack.Push(rc)
      ser.AsyncProcessResponse(stack, None, stream, None)
      out.obligations += 1
      facts = {'reply': kind}
      if len(rc.got) != 1 or not isinstance(rc.got[0], MethodReturnMessage):
        out.violate('reply:not-delivered', 'reply produced %r' % (rc.got,), facts)
        continue
      m = rc.got[0]
      if kind == 'OK':
        if m.error is not None or m.return_value != want_val:
          out.violate('reply:OK', 'Rdispatch OK with %d reply contexts decoded to value=%r error=%r, '
                      'supplied %r' % (len(rctx), m.return_value, m.error, want_val), facts)
      else:
        ok = isinstance(m.error, ServerError)
        if ok and kind in ('ERROR', 'Rerr', 'BAD_Rerr'):
          ok = text in str(m.error)
        if not ok:
          out.violate('reply:' + kind, '%s reply (%r) decoded to value=%r error=%r(%s)' % (
            kind, text, m.return_value, m.error, type(m.error).__name__), facts)
    out.classes = sorted(classes)
    out.nontrivial = frames > 0
    out.extra = {'frames_decoded': frames}
    out.sig = ('frames', sorted(c for c in classes if c.startswith('ctx') or c in ('deadline', 'client-id')),
               sorted(reply_kinds))
    if idx % 50 == 0:
      out.sample = {'kind': 'frame batch', 'client_id': client_id, 'classes': sorted(classes),
                    'last_frame_head': frame[:48]}

  def _wire(self, env, rng, idx, tier, out):
    """Frames a real ThriftMux client (public builder) actually writes, captured at the
    simulated peer: decoded by the independent codec there; contexts (client id, deadline)
    and the Thrift call must be what the caller supplied."""
    from vlib import muxcodec as mc, servers
    from vlib.stackworld import StackWorld
    client_id = rng.choice(['client', 'cliént-€', '日本', 'svc.prod', 'x' * 300])
    opening = rng.random() < 0.5      # calls issued while the connection is still opening
    class Policy(servers.DefaultPolicy):
      def __call__(self, server, conn, req):
        a0 = req['call'][1][0] if req.get('call') and req['call'][1] else ''
        if isinstance(a0, str) and a0.startswith('d'):
          return {'drop': True}       # never answered: the caller times out and discards
        return {'delay': 0.001}
    w = StackWorld(env, rng, kind='mux', n_eps=1, timeout=2.0, client_id=client_id,
                   policy=Policy(), open_timeout=0 if opening else None,
                   connect_latency=rng.choice([0.02, 0.2]) if opening else 0.0005)
    srv = w.servers[0]
    short = rng.random() < 0.3
    if short:
      # a socket whose send() takes only part of a buffer (small socket buffer / frame larger than
      # the free space): the frame must still arrive whole
      srv.sim.send_limit = rng.choice([1, 5, 33, 150])
    sent = []
    bad_first = rng.random() < 0.3
    if bad_first:
      # a call whose argument cannot be serialised (it fails at the caller, nothing is sent) right
      # before ordinary calls on the same client: their frames must be unaffected
      m_, a_ = rng.choice([('echo', (4711,)), ('echo', ('a', 'b', 'c')), ('add', ('x', 'y')), ('swap', ('not-a-struct',))])
      w.call(m_, a_, timeout=2.0)
      env.advance(rng.choice([0.0, 0.01]))
    for _ in range(rng.randint(2, 8)):
      s_ = gen_text(rng, False)
      rec = w.call('echo', ('c%d-%s' % (len(w.calls), s_),), timeout=rng.choice([0.5, 2.0, 30.0]))
      sent.append(rec)
      env.advance(rng.choice([0.0, 0.0, 0.01]))
    env.advance(0.8)
    by_arg = {q['call'][1][0]: q for q in srv.requests if q.get('call') and q['call'][1]}
    srv_requests = [by_arg.get(r['args'][0]) for r in sent]
    out.obligations += 1
    if any(q is None for q in srv_requests) or len(srv.requests) != len(sent):
      out.violate('wire:call', 'the peer decoded %d requests %r for the %d calls %r' % (
        len(srv.requests), [q['call'][1][0] for q in srv.requests if q.get('call')][:5], len(sent),
        [r['args'][0] for r in sent][:5]), {'opening': opening})
    sent = [r for r, q in zip(sent, srv_requests) if q is not None]
    out.obligations += 1
    for bf in srv.bad_frames:
      out.violate('wire:undecodable', 'the peer\'s independent decoder rejected a frame the client wrote: %r' % (bf,), {})
    for rec, q in zip(sent, [q for q in srv_requests if q is not None]):
      out.obligations += 3
      ctx = dict(q['contexts'])
      if ctx.get(mc.CLIENT_ID_KEY) != client_id.encode('utf-8'):
        out.violate('wire:client-id', 'client id context %r, supplied %r' % (ctx.get(mc.CLIENT_ID_KEY), client_id),
                    {'nonascii': any(ord(c) > 127 for c in client_id)})
      dl = ctx.get(mc.DEADLINE_KEY)
      try:
        ts, dns = mc.decode_deadline(dl)
        # the timestamp is the whole second at which the frame was marshalled: between issue and arrival
        if abs(dns - (rec['t'] + rec['T']) * 1e9) > 2000 or ts % 10 ** 9 or \
            not (int(rec['t']) <= ts // 10 ** 9 <= int(q['vt'])):
          out.violate('wire:deadline', 'deadline context (%d,%d) for call issued at %r with T=%r' % (ts, dns, rec['t'], rec['T']), {})
      except Exception as e:  # noqa
        out.violate('wire:deadline', 'deadline context undecodable: %r' % e, {})
      if q['call'] != ('echo', rec['args']) or q['dst'] != b'' or q['dtab'] != [] or not (2 <= q['tag'] <= (1 << 24) - 2):
        out.violate('wire:call', 'peer decoded %r tag %r for call echo%r' % (q['call'], q['tag'], rec['args']), {})
    # discard frames: several calls that are never answered time out (some in the very same
    # instant, so that their Tdiscarded frames queue up behind each other): the peer's
    # independent decoder must see exactly one discard per timed-out request, naming its tag
    n_before = len(srv.requests)
    doomed = []
    for burst in range(rng.choice([1, 2])):
      T = rng.choice([0.03, 0.05])
      for _ in range(rng.choice([1, 2, 3, 6])):
        doomed.append(w.call('echo', ('d%d-%d' % (len(w.calls), rng.getrandbits(20)),), timeout=T))
      env.advance(rng.choice([0.0, 0.004, 0.02]))
    env.advance(0.5)
    want = sorted(q['tag'] for q in srv.requests[n_before:]
                  if q.get('call') and q['call'][1] and str(q['call'][1][0]).startswith('d'))
    got = sorted(d['discard_tag'] for d in srv.discards)
    out.obligations += 2
    if len(want) != len(doomed):
      out.violate('wire:call', 'the peer decoded %d of the %d unanswered calls' % (len(want), len(doomed)), {'opening': opening})
    elif got != want:
      out.violate('wire:discard-tags', 'requests with tags %r timed out on the open connection; the Tdiscarded frames '
                  'the peer decoded name %r' % (want, got), {'n': len(want)})
    for d in srv.discards:
      out.obligations += 1
      if d['frame_tag'] != 0 or not d['why']:
        out.violate('wire:discard-frame', 'Tdiscarded frame with tag %r and reason %r' % (d['frame_tag'], d['why']), {})
    # stalled writes across the ping period: from 29 s after the connection opened three large
    # requests are written back to back, each blocked for 4.4 s behind a partial frame; the periodic
    # ping (due 30-40 s after the open) therefore comes due while a frame is half written.  The
    # byte stream must stay a sequence of whole frames (the ping waits its turn).
    stalled = False
    opened = [e['vt'] for e in env.events if e['kind'] == 'net.connect.end' and e.get('result') == 'ok']
    if opened and (idx // 10) % 2 == 0 and not srv.bad_frames:      # (wire cases all have even indices)
      stalled = True
      t_open = opened[0]
      if env.now < t_open + 29.0:
        env.run_until(t_open + 29.0)

      def stall(conn, nbytes):
        return 4.4 if nbytes > 200 else 0.0
      stall.wants_size = True
      srv.sim.send_delay = stall
      n_req0 = len(srv.requests)
      big = []
      for k in range(3):
        big.append(w.call('echo', ('b%d-%s' % (len(w.calls), 'x' * rng.choice([300, 900, 4000])),), timeout=30.0))
        env.advance(4.4)
      srv.sim.send_delay = None
      env.advance(8.0)
      out.obligations += 2
      got_big = [q['call'][1][0] for q in srv.requests[n_req0:] if q.get('call') and q['call'][1]]
      alive = any(not c.client_closed and not c.server_closed for c in srv.sim.conns)
      if alive and sorted(got_big) != sorted(r['args'][0] for r in big):
        out.violate('wire:call', 'with writes stalled across the ping period the peer decoded %d of 3 large requests '
                    'intact on a connection that is still up' % len(set(got_big) & set(r['args'][0] for r in big)), {'stalled': True})
    every_write_stalls = False
    if opened and not stalled and not srv.bad_frames:
      # every write blocks for a while behind a prefix (also the few bytes of a frame header) and the
      # deadlines of the requests being written pass inside those writes; afterwards the peer is
      # healthy again: the byte stream must still be a sequence of whole frames
      every_write_stalls = True
      srv.sim.send_delay = lambda conn: 0.3
      for k in range(3):
        w.call('echo', ('s%d-%d' % (len(w.calls), rng.getrandbits(16)),), timeout=0.1)
        env.advance(rng.choice([0.0, 0.05]))
      env.advance(2.0)
      srv.sim.send_delay = None
      n_req1 = len(srv.requests)
      hv = w.call('echo', ('h%d-%d' % (len(w.calls), rng.getrandbits(16)),), timeout=2.0)
      env.advance(1.0)
      out.obligations += 1
      alive = any(not c.client_closed and not c.server_closed for c in srv.sim.conns)
      if alive and not srv.bad_frames and hv['args'][0] not in [q['call'][1][0] for q in srv.requests[n_req1:] if q.get('call') and q['call'][1]]:
        out.violate('wire:call', 'after writes that stalled past their requests\' deadlines the peer did not decode the next '
                    'request on a connection that is still up', {'stalled': 'every-write'})
    transient = False
    live_ = [c for c in srv.sim.conns if not c.client_closed and not c.server_closed]
    if live_ and not srv.bad_frames and idx % 3 == 2:
      # a write that fails with a passing condition (ENOBUFS, EAGAIN, EINTR) after part of a frame was accepted:
      # whatever the client does next (it may give the connection up), what the peer receives on a connection
      # stays a sequence of whole frames, at most cut off at its very end
      import errno as errno_
      from vlib import simnet as simnet_
      transient = True
      c_ = live_[-1]
      f_ = simnet_.Fault('transient', rng.choice([errno_.ENOBUFS, errno_.EAGAIN, errno_.EINTR]))
      f_.after = rng.choice([0, 1, 3, 10, 57])
      w.net.fault_plan[(srv.ep, c_.ordinal, 'send', c_.ops['send'])] = f_
      for k in range(3):
        w.call('echo', ('t%d-%s' % (len(w.calls), gen_text(rng, False)),), timeout=2.0)
      env.advance(3.0)
      w.net.fault_plan.clear()
    for bf in srv.bad_frames:
      out.violate('wire:undecodable', 'the peer\'s independent decoder rejected a frame the client wrote: %r' % (bf,),
                  {'stalled': stalled or every_write_stalls, 'after_transient_write_error': transient})
    w.close()
    env.advance(0.1)
    out.classes = ['wire', 'wire:discards'] + (['wire:stalled-across-ping'] if stalled else [])
    out.classes = out.classes + (['wire:every-write-stalls'] if every_write_stalls else [])
    out.classes = out.classes + (['wire:transient-write-error-mid-frame'] if transient else [])
    out.classes = out.classes + (['wire:simultaneous-discards'] if len(want) > 1 else [])
    out.classes = out.classes + (['wire:short-sends'] if short else [])
    out.classes = out.classes + (['wire:after-unserialisable-call'] if bad_first else [])
    out.nontrivial = len(srv.requests) > 0
    out.extra = {'wire_frames': len(srv.requests), 'pings_seen': len(srv.pings)}
    out.sig = ('wire', client_id[:8], len(sent), stalled)
    return
    out.classes = ['wire', 'wire:discards'] + (['wire:simultaneous-discards'] if len(want) > 1 else [])
    out.nontrivial = len(srv.requests) > 0
    out.extra = {'wire_frames': len(srv.requests)}
    out.sig = ('wire', client_id[:8], len(sent))

  def _direct_opening(self, env, rng, idx, tier, out):
    """Several requests reach a ThriftMux connection that is still opening (the transport parks
    them until the open completes): every frame written afterwards must carry exactly the
    contexts and call of ONE of the supplied messages, each supplied message exactly once."""
    import gevent
    from scales.constants import SinkProperties, MessageProperties
    from scales.loadbalancer.zookeeper import Endpoint
    from scales.message import Deadline, MethodCallMessage
    from scales.sink import ClientMessageSink, ClientMessageSinkStack, TimeoutSinkProvider
    from scales.thriftmux.sink import SocketTransportSink, ThriftMuxMessageSerializerSink, ClientIdInterceptorSink
    from vlib import muxcodec as mc, servers
    from vlib.stackworld import get_net, _PORT
    from vlib.gen.verifsvc import ExtService
    net = get_net(env)
    net.reset()
    _PORT[0] += 1
    srv = servers.MuxServer(net, 'wire', _PORT[0], servers.DefaultPolicy(0.001))
    srv.sim.connect_latency = rng.choice([0.01, 0.1])
    tp = SocketTransportSink.Builder()
    sp = ThriftMuxMessageSerializerSink.Builder()
    sp.next_provider = tp
    head = sp
    client_id = rng.choice([None, 'cid', 'cliént'])
    if client_id:
      head = ClientIdInterceptorSink.Builder(client_id=client_id)
      head.next_provider = sp
    props = {SinkProperties.Endpoint: Endpoint('wire', _PORT[0]), SinkProperties.Label: 'c13w',
             SinkProperties.ServiceInterface: ExtService.Iface}
    top = head.CreateSink(props)

    class Term(ClientMessageSink):
      def AsyncProcessRequest(self, *a):
        raise NotImplementedError()

      def AsyncProcessResponse(self, sink_stack, context, stream, msg):
        pass
    top.Open()
    supplied = {}
    for i in range(rng.randint(2, 7)):
      arg = 'w%d-%s' % (i, gen_text(rng, False))
      msg = MethodCallMessage(ExtService.Iface, 'echo', (arg,), {})
      ctx = {'k%d' % i: gen_text(rng, False), 'common': 'v%d' % i}
      for k, v in ctx.items():
        msg.properties[k] = v
      msg.properties[MessageProperties.Endpoint] = None
      want = {k.encode('utf-8'): v.encode('utf-8') for k, v in ctx.items()}
      if client_id:
        want[mc.CLIENT_ID_KEY] = client_id.encode('utf-8')
      supplied[arg] = want
      st = ClientMessageSinkStack()
      st.Push(Term(), None)
      gevent.spawn(top.AsyncProcessRequest, st, msg, None, {})
      if rng.random() < 0.5:
        env.advance(rng.random() * 0.004)
    env.advance(0.6)
    out.obligations += 1 + len(supplied)
    seen = {}
    for q in srv.requests:
      arg = q['call'][1][0] if q.get('call') and q['call'][1] else None
      seen[arg] = seen.get(arg, 0) + 1
      if arg not in supplied or dict(q['contexts']) != supplied[arg]:
        out.violate('wire:mixed-frame', 'a frame written after the connection opened carries call %r with contexts %r; '
                    'no supplied message has that combination' % (arg, sorted(dict(q['contexts']))[:4]),
                    {'opening': True}, {'supplied': sorted(supplied)})
    if sorted(seen.items()) != sorted((a, 1) for a in supplied) and not out.violations:
      out.violate('wire:mixed-frame', 'messages supplied %r, calls decoded at the peer %r' % (sorted(supplied), sorted(seen.items())),
                  {'opening': True})
    for bf in srv.bad_frames:
      out.violate('wire:undecodable', repr(bf), {})
    top.Close()
    env.advance(0.1)
    out.classes = ['wire', 'wire:requests-while-opening']
    out.nontrivial = len(srv.requests) > 0
    out.extra = {'wire_frames': len(srv.requests)}
    out.sig = ('wire-opening', client_id, len(supplied))

  def run_case(self, env, rng, idx, tier):
    out = CaseResult()
    if idx >= self.nheader and idx % 10 == 5:
      self._direct_opening(env, rng, idx, tier, out)
      return out
    if idx < self.nheader:
      self._header_chunk(env, rng, idx, tier, out)
    elif idx % 5 == 0:
      self._wire(env, rng, idx, tier, out)
    else:
      self._frame_batch(env, rng, idx, tier, out)
    return out


CHECK = C13()
