"""C20 - generated proxies and URI parsing are faithful for every interface."""
from vlib.framework import BaseCheck, CaseResult

NAME_STEMS = ['get', 'Put', 'fetchAll', 'x', 'do_it', 'q9', 'Name', 'open', 'close', 'm']
RESERVED = {'DispatcherOpen', 'DispatcherClose'}


def gen_name(rng):
  stem = rng.choice(NAME_STEMS) + rng.choice(['', '', '1', 'X', '_y'])
  shape = rng.choice(['plain', 'plain', 'plain', '_x', 'x_', 'x__', '__x', '__x__', 'mid__dle',
                      'x_async_y', 'x_async'])
  return {
    'plain': stem, '_x': '_' + stem, 'x_': stem + '_', 'x__': stem + '__', '__x': '__' + stem,
    '__x__': '__' + stem + '__', 'mid__dle': stem + '__' + stem, 'x_async_y': stem + '_async_y',
    'x_async': stem + '_async',   # a method whose own name ends like the asynchronous form of another
  }[shape], shape


class _EmptyBatchError(Exception):
  def __len__(self):
    return 0


class _QuietError(Exception):
  def __bool__(self):
    return False


class StubDispatcher(object):
  def __init__(self):
    self.calls = []
    self.script = None
    self.opened = 0
    self.closed = 0

  def Open(self):
    self.opened += 1

  def Close(self):
    self.closed += 1

  def DispatchMethodCall(self, method, args, kwargs, timeout=None):
    self.calls.append((method, args, kwargs))
    return self.script(method)


class C20(BaseCheck):
  ID = 'C20'
  RULE = ('case = one generated interface (1-3 level inheritance chain, 2-10 methods with names '
          'from plain/_x/x_/x__/__x/__x__/mid__dle/x_async_y shapes and positional/default/'
          '*args/**kwargs signatures) exercised through both forms of every public method with '
          'generated arguments and scripted results (value, error, completed later), plus 6 '
          'generated URIs (tcp with 1-8 endpoints, zk with/without #name, bad schemes, mixed-case '
          'schemes); keyword arguments include names that mean something elsewhere in the client (timeout, method, args, kwargs, ...); a parsed tcp provider is read 2-4 times; non-trivial = at least one public method and one URI checked; distinct by '
          '(set of name shapes, chain depth, URI kinds)')
  ANCHORS = ('scales.core:ClientProxyBuilder._BuildServiceProxy',
             'scales.core:ScalesUriParser.Parse')
  REQUIRED_ANCHORS = ANCHORS
  REQUIRED_CLASSES = ('name:plain', 'name:x_', 'name:x__', 'name:_x', 'name:__x__', 'name:x_async', 'uri:tcp', 'uri:zk',
                      'uri:bad', 'result:error', 'result:later', 'inherited', 'function-name-differs', 'alias',
                      'uri:tcp-read-again', 'kwargs:loaded-names', 'ancestors-proxied-first', 'declared:classmethod', 'declared:staticmethod', 'declared:abstractmethod', 'uri:other-parser-extended', 'another-client-used-first', 'result:error-object-is-falsy')
  ASSUMPTIONS = ('public method = every user method that is not a dunder name (the property quantifies over names '
                 'with leading and trailing underscores, so _x and _x_ are judged like any other); names that collide with '
                 'another method\'s _async form or with the proxy base class are not generated',)
  QUICK_CASES = 1200
  THOROUGH_CASES = 100000
  QUICK_WALL = 180
  THOROUGH_WALL = 1800
  MIN_DISTINCT = 10

  def run_case(self, env, rng, idx, tier):
    import gevent
    from scales.asynchronous import AsyncResult
    from scales.core import ClientProxyBuilder, ScalesUriParser
    from scales.loadbalancer.serverset import StaticServerSetProvider, ZooKeeperServerSetProvider
    out = CaseResult()
    classes = set()
    body_calls = []

    # ---- build an interface chain
    depth = rng.randint(1, 3)
    levels = []
    all_methods = {}
    base = object
    abstract_case = idx % 5 == 3
    sigs = ['pos', 'default', 'varargs', 'kwargs', 'noargs', 'pos', 'default', 'kwargs', 'classmethod', 'staticmethod']
    for level in range(depth):
      ns = {}
      for _ in range(rng.randint(1, 4)):
        name, shape = gen_name(rng)
        if name in RESERVED or name in all_methods or name in ns:
          continue
        sig = rng.choice(sigs)

        def make(name=name, sig=sig):
          if sig == 'pos':
            def m(self, a, b): body_calls.append(name); return 'BODY'
          elif sig == 'default':
            def m(self, a, b=3, c=None): body_calls.append(name); return 'BODY'
          elif sig == 'varargs':
            def m(self, *args): body_calls.append(name); return 'BODY'
          elif sig == 'kwargs':
            def m(self, a=1, **kw): body_calls.append(name); return 'BODY'
          elif sig == 'classmethod':
            def m(cls, a=1): body_calls.append(name); return 'BODY'
          elif sig == 'staticmethod':
            def m(a=1): body_calls.append(name); return 'BODY'
          else:
            def m(self): body_calls.append(name); return 'BODY'
          # the attribute name is what identifies the method; the function object's own
          # __name__ may differ (decorator without functools.wraps, factory-made stubs)
          fn_name = rng.choice([name, name, name, 'wrapper', 'stub', 'm'])
          m.__name__ = fn_name
          if fn_name != name:
            classes.add('function-name-differs')
          if abstract_case and sig not in ('classmethod', 'staticmethod') and not name.startswith('__') and rng.random() < 0.6:
            # the interface is written as an abstract base class: its methods are declarations only
            import abc
            classes.add('declared:abstractmethod')
            return abc.abstractmethod(m)
          if sig in ('classmethod', 'staticmethod'):
            # an interface member declared as a class or static method is a method of the service all the same
            classes.add('declared:' + sig)
            return classmethod(m) if sig == 'classmethod' else staticmethod(m)
          return m
        ns[name] = make()
        all_methods[name] = (shape, sig, level)
        if rng.random() < 0.15 and not name.startswith('_') and getattr(ns[name], '__name__', None) == name:
          alias = rng.choice(['alias', 'fetch', 'lookup2']) + str(rng.randint(0, 9))
          if alias not in all_methods and alias not in ns and alias not in RESERVED:
            ns[alias] = ns[name]          # 'fetch = get'
            all_methods[alias] = ('plain', sig, level)
            classes.add('alias')
      if abstract_case:
        import abc
        base = abc.ABCMeta('Iface%d_%d' % (idx, level), (base,), ns)
      else:
        base = type('Iface%d_%d' % (idx, level), (base,), ns)
      levels.append(base)
    Iface = base
    # drop names colliding with another method's _async form
    names = set(all_methods)
    usable = {n: v for n, v in all_methods.items()
              if not (n.endswith('_async') and n[:-6] in names) and (n + '_async') not in names}

    if depth > 1 and rng.random() < 0.5:
      # clients for the services this one extends are built first, in the same process
      classes.add('ancestors-proxied-first')
      for anc in levels[:-1]:
        ClientProxyBuilder.CreateServiceClient(anc)
    proxy_cls = ClientProxyBuilder.CreateServiceClient(Iface)
    disp = StubDispatcher()
    out.obligations += 1
    try:
      proxy = proxy_cls(disp)
    except Exception as e:  # noqa: the generated client of an interface must be usable
      out.violate('proxy:client-not-instantiable', 'the client generated for the interface cannot be created: %s: %s' % (
        type(e).__name__, e), {'abstract_interface': abstract_case}, {'methods': sorted(all_methods)})
      out.classes = sorted(classes)
      out.nontrivial = True
      out.sig = ('not-instantiable', abstract_case)
      return out

    public = sorted(n for n in usable if not n.startswith('__'))
    disp0 = None
    if idx % 2 == 0:
      # another client of the same interface exists in the process (another cluster behind the same Iface) and
      # has used some of the methods first; it has its own dispatcher
      classes.add('another-client-used-first')
      disp0 = StubDispatcher()
      proxy0 = proxy_cls(disp0)
      done0 = AsyncResult()
      done0.set('other-client')
      disp0.script = lambda m: done0
      for name in public:
        for attr in (name, name + '_async'):
          if rng.random() < 0.6 and hasattr(proxy_cls, attr):
            try:
              getattr(proxy0, attr)()
            except BaseException:  # noqa: judged below, for the client under test
              pass
      n_calls0 = len(disp0.calls)
    shapes_used = set()
    for name in sorted(usable):
      shape, sig, level = usable[name]
      classes.add('name:' + shape)
      shapes_used.add(shape)
      if level < depth - 1:
        classes.add('inherited')
      if name.startswith('__'):
        continue   # dunder names are not interface methods: whatever the generator does with them is not judged
      for form in ('sync', 'async'):
        attr = name + ('_async' if form == 'async' else '')
        out.obligations += 1
        if not hasattr(proxy_cls, attr):
          out.violate('proxy:missing-form', 'public method %r has no %r on the generated client' % (
            name, attr), {'shape': shape, 'form': form}, {'methods': sorted(usable)})
          continue
        # arguments
        if sig == 'pos':
          args, kwargs = (rng.randint(0, 99), [1, 2]), {}
        elif sig == 'default':
          args, kwargs = ('s',), {'c': {'k': object()}}
          if rng.random() < 0.3:
            args, kwargs = (), {'a': 's', 'b': rng.choice([0, 4]), 'c': None}      # everything by keyword
        elif sig in ('classmethod', 'staticmethod'):
          args, kwargs = rng.choice([((7,), {}), ((), {'a': 8}), ((), {})])
        elif sig == 'varargs':
          args, kwargs = tuple(object() for _ in range(rng.randint(0, 4))), {}
        elif sig == 'kwargs':
          args, kwargs = (), {'a': 5, 'zz': [object()], 'y': None}
          if rng.random() < 0.5:
            # parameter names an interface may well use and that mean something elsewhere in the
            # client (per-call options, the proxy's own locals)
            classes.add('kwargs:loaded-names')
            for kn in rng.sample(['timeout', 'method', 'args', 'kwargs', 'asynchronous', 'self_', 'deadline',
                                  'method_name', 'source', 'headers'], rng.randint(1, 4)):
              kwargs[kn] = rng.choice([0, 30, 2.5, None, 'v', object()])
        else:
          args, kwargs = (), {}
        mode = rng.choice(['value', 'error', 'later', 'later-error'])
        classes.add('result:' + mode.replace('later-error', 'later'))
        if 'error' in mode:
          classes.add('result:error')
        scripted = AsyncResult()
        value, error = ('val', name, rng.random()), KeyError('scripted-%s' % name)
        if rng.random() < 0.25:
          # an error object that is false in a boolean context (a batch error listing no failed items, an
          # error type with a truth value of its own): an error like any other
          error = rng.choice([_EmptyBatchError, _QuietError])('scripted-%s' % name)
          classes.add('result:error-object-is-falsy')

        def complete():
          if 'error' in mode:
            scripted.set_exception(error)
          else:
            scripted.set(value)
        if mode.startswith('later'):
          g = gevent.Greenlet(complete)
          g.start_later(rng.random() * 3)
        else:
          complete()
        disp.script = lambda m: scripted
        disp.calls = []
        del body_calls[:]
        got = err = None
        try:
          got = getattr(proxy, attr)(*args, **kwargs)
        except BaseException as e:  # noqa
          err = e
        out.obligations += 3
        facts = {'shape': shape, 'form': form}
        if body_calls:
          out.violate('proxy:interface-body-ran',
                      'calling %r ran the interface\'s own method body instead of the dispatcher' % attr,
                      facts, {'methods': sorted(usable)})
          continue
        if len(disp.calls) != 1:
          out.violate('proxy:dispatch-count', '%r dispatched %d calls' % (attr, len(disp.calls)), facts)
          continue
        m, a_, k_ = disp.calls[0]
        same_args = isinstance(a_, tuple) and len(a_) == len(args) and all(x is y for x, y in zip(a_, args))
        same_kw = isinstance(k_, dict) and set(k_) == set(kwargs) and all(k_[k] is kwargs[k] for k in kwargs)
        if m != name or not same_args or not same_kw:
          out.violate('proxy:arguments-changed', '%r handed (%r, %r, %r) to the dispatcher for call '
                      '(%r, %r)' % (attr, m, a_, k_, args, kwargs), facts)
        if form == 'async':
          if got is not scripted or err is not None:
            out.violate('proxy:async-result', '%r returned %r / raised %r instead of the pending result'
                        % (attr, got, err), facts)
        else:
          if 'error' in mode:
            if err is not error:
              out.violate('proxy:sync-error', '%r returned %r / raised %r, expected scripted error' % (
                attr, got, err), facts)
          elif got is not value or err is not None:
            out.violate('proxy:sync-value', '%r returned %r / raised %r, expected scripted value' % (
              attr, got, err), facts)
        if mode.startswith('later'):
          env.advance(3.1)
    disp.script = None
    if disp0 is not None:
      out.obligations += 1
      if len(disp0.calls) != n_calls0:
        out.violate('proxy:call-reached-another-clients-dispatcher', '%d call(s) made on this client were dispatched by another '
                    'client of the same interface: %r' % (len(disp0.calls) - n_calls0, [c[0] for c in disp0.calls[n_calls0:]][:5]), {})

    # ---- URIs
    if idx % 3 == 1:
      # another component of the process has a parser of its own that it has taught a further scheme
      # (the handler table is a public attribute), and a subclass with its own tcp handling: neither
      # is any business of the parsers built afterwards
      classes.add('uri:other-parser-extended')
      other = ScalesUriParser()
      other.handlers['http'] = lambda u: 'handled-by-the-other-parser'
      other.handlers['ftp'] = other.handlers['http']

      class _MyParser(ScalesUriParser):
        def _HandleTcp(self, uri):
          return 'custom-tcp'
      _MyParser()
    parser = ScalesUriParser()
    uri_kinds = set()
    for _ in range(6):
      kind = rng.choice(['tcp', 'tcp', 'zk', 'zk', 'bad'])
      uri_kinds.add(kind)
      classes.add('uri:' + kind)

      def host():
        return rng.choice(['localhost', 'h%d' % rng.randint(0, 999), 'a.b-c.example.com',
                           '10.%d.%d.%d' % (rng.randint(0, 255), rng.randint(0, 255), rng.randint(1, 254)),
                           'MixedCase.Host'])

      def scheme(s):
        return ''.join(rng.choice([c.lower(), c.upper()]) for c in s) if rng.random() < 0.3 else s
      if kind == 'tcp':
        eps = [(host(), rng.choice([1, 80, 8080, 65535, rng.randint(1, 65535)]))
               for _ in range(rng.randint(1, 8))]
        uri = scheme('tcp') + '://' + ','.join('%s:%d' % e for e in eps)
        out.obligations += 1
        try:
          prov = parser.Parse(uri)
          prov.Initialize(None, None)
          got = [(s.service_endpoint.host, s.service_endpoint.port) for s in prov.GetServers()]
          ok = isinstance(prov, StaticServerSetProvider) and got == eps and \
            all(type(p) is int for _, p in got)
          # the provider is read again by every balancer built over it (and on every re-open)
          for _again in range(rng.randint(1, 3)):
            classes.add('uri:tcp-read-again')
            out.obligations += 1
            again = [(s.service_endpoint.host, s.service_endpoint.port) for s in prov.GetServers()]
            if ok and again != eps:
              ok, got = False, ('read #%d of the parsed provider' % (_again + 2), again)
        except Exception as e:  # noqa
          got, ok = repr(e), False
        if not ok:
          out.violate('uri:tcp', 'tcp uri %r parsed to %r' % (uri, got), {'uri_kind': 'tcp'})
      elif kind == 'zk':
        zhosts = ','.join('%s:%d' % (host(), rng.choice([2181, rng.randint(1, 65535)]))
                          for _ in range(rng.randint(1, 4)))
        path = '/' + '/'.join(rng.choice(['svc', 'a', 'prod', 'x-y_z', 'Member']) for _ in range(rng.randint(1, 4)))
        name = rng.choice([None, None, 'thrift', 'http', 'mux-admin'])
        uri = scheme('zk') + '://' + zhosts + path + ('#' + name if name else '')
        out.obligations += 1
        try:
          prov = parser.Parse(uri)
          client_hosts = getattr(prov._zk_client, 'hosts', None)
          # host names are case-insensitive (kazoo lower-cases them)
          want_hosts = sorted((h.split(':')[0].lower(), int(h.split(':')[1])) for h in zhosts.split(','))
          got_hosts = sorted((h.lower(), int(p)) for h, p in client_hosts)
          ok = (isinstance(prov, ZooKeeperServerSetProvider) and prov._zk_path == path
                and prov.endpoint_name == name and got_hosts == want_hosts)
          got = (type(prov).__name__, prov._zk_path, prov.endpoint_name, got_hosts)
        except Exception as e:  # noqa
          got, ok = repr(e), False
        if not ok:
          out.violate('uri:zk', 'zk uri %r parsed to %r' % (uri, got), {'uri_kind': 'zk'})
      else:
        bad = rng.choice(['http', 'udp', 'tcpx', 'zookeeper', '', 'ftp', 'z'])
        uri = (bad + '://' if bad else '') + 'h:1'
        out.obligations += 1
        try:
          prov = parser.Parse(uri)
          out.violate('uri:bad-accepted', 'uri %r with unsupported scheme was accepted: %r' % (uri, prov),
                      {'uri_kind': 'bad'})
        except Exception:
          pass
    for e in env.errors:
      out.violate('greenlet-error', 'unhandled exception: %s: %s' % (e['type'], e['value']), {}, e)
    out.classes = sorted(classes)
    out.nontrivial = bool(public) and bool(uri_kinds)
    out.sig = (sorted(shapes_used), depth, sorted(uri_kinds))
    out.extra = {'public_methods': len(public), 'methods': len(usable)}
    if idx % 61 == 0:
      out.sample = {'methods': {n: list(v) for n, v in usable.items()}, 'depth': depth,
                    'uri_kinds': sorted(uri_kinds)}
    return out


CHECK = C20()
