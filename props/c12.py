"""C12 - timed-out calls are never transmitted afterwards; sent ones are discarded.

Fault enumeration over *where the request is when its timer fires*: waiting
for the client to open, for a pooled connect, in the pool queue, in the mux send
queue, or on the wire - for both stacks, with the expiry swept over seeded
offsets around each hop's hand-over instant (and exactly on it in the boundary
class)."""
from vlib.framework import BaseCheck, CaseResult

EPS = 1e-6
HOPS = [('thrift', 'open'), ('mux', 'open'), ('thrift', 'pool-connect'), ('thrift', 'pool-queue'),
        ('mux', 'send-queue'), ('thrift', 'wire'), ('mux', 'wire'), ('thrift', 'mixed'), ('mux', 'mixed'),
        ('thrift', 'blocked-write'), ('mux', 'transport-open')]


class C12(BaseCheck):
  ID = 'C12'
  LEVEL = 'fault_enumeration'
  RULE = ('case = (stack, hop at expiry) x seeded offset of the deadline relative to the hop\'s hand-over '
          'instant (20%: exactly on it / on the 10 ms grid = boundary class), hops: blocked-write (serial: the deadline passes inside the blocked write of the request itself), open (client still '
          'connecting), pool-connect (second pooled connection still connecting), pool-queue (waiting for '
          'the only connection), send-queue (mux writer stalled; one case in four drains a backlog of 30-120 calls with writes that cost 1-4 ms of CPU each and never block, so that deadlines pass inside the drain; one case in twelve queues 1100 calls behind a blocked write while an earlier, written call times out), wire (written, unanswered or answered '
          'late), mixed (random combination). Every byte range the server decoded is mapped back to the '
          'client send() events that carried it; for a call handed TimeoutError at log position s no send '
          'carrying its bytes may have position > s; for mux a request fully written before s and '
          'unanswered on a still-open connection must be followed by a Tdiscarded naming its tag. An eleventh hop sits inside the multiplexed transport: requests handed to timeout sink -> serializer -> transport while the transport itself is still connecting; one that expires in that wait must never reach the peer. A third of the mux cases start their tag pool at 254..2^23. '
          'non-trivial = at least one call timed out; distinct by (stack, hop, offset class, #timeouts, '
          'discards expected)')
  ANCHORS = ('scales.sink:ClientTimeoutSink._TimeoutHelper',
             'scales.thrift.sink:SocketTransportSink._AsyncProcessTransaction',
             'scales.mux.sink:MuxSocketTransportSink._HandleTimeout',
             'scales.thriftmux.sink:SocketTransportSink._OnTimeout',
             'scales.pool.watermark:WatermarkPoolSink._ProcessQueue')
  REQUIRED_ANCHORS = ANCHORS
  REQUIRED_CLASSES = tuple('%s/%s' % h for h in HOPS) + ('boundary', 'discard-expected', 'expired-not-sent', 'large-tags', 'expired-in-open-wait', 'send-queue:over-a-thousand-queued', 'send-queue:cpu-bound-drain', 'send-queue:slow-log-handler')
  ASSUMPTIONS = ('bytes are attributed to calls through the frames the server decodes (cid in the argument) '
                 'plus a scan of undecoded trailing bytes for the call id',)
  QUICK_CASES = 1440
  THOROUGH_CASES = 60000
  QUICK_WALL = 180
  THOROUGH_WALL = 1800
  MIN_DISTINCT = 10

  def run_case(self, env, rng, idx, tier):
    # a connection with a history: its tag pool has handed out (and still leases, e.g. to timed-out
    # calls the peer never acknowledged) all the small tags, so the calls of this case get large ones
    from scales.mux.sink import TagPool
    tag_rng = rng.random()
    start = None
    if HOPS[idx % len(HOPS)][0] == 'mux' and tag_rng < 0.35:
      start = rng.choice([254, 255, 256, 65534, 65535, 65536, 2 ** 23 - 3, rng.randint(257, 2 ** 23)])
    orig_init = TagPool.__init__

    def init(pool_, *a, **k):
      orig_init(pool_, *a, **k)
      if start is not None:
        pool_._next = start
    TagPool.__init__ = init
    try:
      out = self._run_case(env, rng, idx, tier)
    finally:
      TagPool.__init__ = orig_init
    if start is not None:
      out.classes = sorted(set(out.classes) | {'large-tags'})
    return out

  def _transport_open(self, env, rng, idx, tier):
    """The hop inside the multiplexed transport: requests handed to timeout sink -> serializer ->
    transport while the transport's connection is still being established wait there for the open; one
    whose deadline passes in that wait has been answered with TimeoutError and must never be
    written when the connection comes up (however idle the send loop is at that moment)."""
    import gevent
    from scales.constants import SinkProperties, MessageProperties
    from scales.loadbalancer.zookeeper import Endpoint
    from scales.message import Deadline, MethodCallMessage, TimeoutError as ScalesTimeout
    from scales.sink import ClientMessageSink, ClientMessageSinkStack, TimeoutSinkProvider
    from scales.thriftmux.sink import SocketTransportSink as MuxTransport, ThriftMuxMessageSerializerSink
    from vlib import servers
    from vlib.stackworld import get_net, _PORT
    from vlib.gen.verifsvc import ExtService
    out = CaseResult()
    classes = {'mux/transport-open'}
    net = get_net(env)
    net.reset()
    _PORT[0] += 1
    port = _PORT[0]
    srv = servers.MuxServer(net, 'to', port, servers.DefaultPolicy(0.002))
    lat = rng.choice([0.2, 0.7])
    srv.sim.connect_latency = lat
    tp = MuxTransport.Builder()
    sp = ThriftMuxMessageSerializerSink.Builder()
    sp.next_provider = tp
    tprov = TimeoutSinkProvider()
    tprov.next_provider = sp
    top = tprov.CreateSink({SinkProperties.Endpoint: Endpoint('to', port), SinkProperties.Label: 'c12o',
                            SinkProperties.ServiceInterface: ExtService.Iface})
    reqs = []

    class Term(ClientMessageSink):
      def AsyncProcessRequest(self, *a):
        raise NotImplementedError()

      def AsyncProcessResponse(self, sink_stack, context, stream, msg):
        context['done'].append((env.now, msg))
    term = Term()

    def request(T):
      r = {'id': len(reqs), 't': env.now, 'T': T, 'done': []}
      reqs.append(r)
      msg = MethodCallMessage(ExtService.Iface, 'echo', ('t%d-x' % r['id'],), {})
      msg.properties[MessageProperties.Endpoint] = None
      msg.properties[Deadline.KEY] = env.now + T
      st = ClientMessageSinkStack()
      st.Push(term, r)
      gevent.spawn(top.AsyncProcessRequest, st, msg, None, {})
      return r
    t0 = env.now
    open_ar = top.Open()
    # one or several requests; the first one parked is the first one released when the open completes
    for i in range(rng.choice([1, 1, 2, 4])):
      request(rng.choice([0.05, lat * 0.5, lat + 0.3, 5.0]))
      if rng.random() < 0.4:
        env.advance(rng.random() * lat * 0.3)
    env.advance(lat * 2 + 1.0)
    facts = {'stack': 'mux', 'hop': 'transport-open'}
    seen = {}
    for q in srv.requests:
      a0 = q['call'][1][0] if q.get('call') and q['call'][1] else ''
      if isinstance(a0, str) and a0.startswith('t'):
        seen[int(a0[1:a0.index('-')])] = q
    for r in reqs:
      out.obligations += 1
      timed_out = [d for d in r['done'] if isinstance(d[1].error, ScalesTimeout)]
      q = seen.get(r['id'])
      if timed_out and q is not None and q['vt'] > timed_out[0][0] + EPS:
        classes.add('expired-in-open-wait')
        out.violate('sent-after-timeout', 'request %d (T=%.2fs) was handed TimeoutError %.3fs after issue while the '
                    'transport was still connecting, and its Tdispatch reached the peer %.3fs after that' % (
                      r['id'], r['T'], timed_out[0][0] - r['t'], q['vt'] - timed_out[0][0]),
                    dict(facts, first_released=r['id'] == 0))
      elif timed_out and q is None:
        classes.add('expired-in-open-wait')
        classes.add('expired-not-sent')
      if len(r['done']) > 1:
        out.violate('double-completion', 'request %d completed %d times' % (r['id'], len(r['done'])), facts)
    for bf in srv.bad_frames:
      out.violate('bad-frame', 'server could not decode client bytes: %r' % (bf,), facts)
    top.Close()
    env.advance(0.1)
    out.classes = sorted(classes)
    out.nontrivial = bool(reqs)
    out.extra = {'transport_open_requests': len(reqs)}
    out.sig = ('mux', 'transport-open', lat, len(reqs), sorted(classes))
    return out

  def _run_case(self, env, rng, idx, tier):
    from scales.message import TimeoutError as ScalesTimeout
    from vlib import servers
    from vlib.stackworld import StackWorld
    out = CaseResult()
    kind, hop = HOPS[idx % len(HOPS)]
    if hop == 'transport-open':
      return self._transport_open(env, rng, idx, tier)
    classes = {'%s/%s' % (kind, hop)}
    boundary = rng.random() < 0.2
    if boundary:
      classes.add('boundary')
    plan = {}       # cid -> server action

    def cid_of(req):
      call = req.get('call')
      if call and call[1] and isinstance(call[1][0], str) and call[1][0].startswith('c'):
        try:
          return int(call[1][0][1:call[1][0].index('-')])
        except ValueError:
          return None
      return None

    class Policy(servers.DefaultPolicy):
      def __call__(self, server, conn, req):
        return dict(plan.get(cid_of(req), {'delay': 0.001}))
    lat = 0.0005
    pool = None
    open_timeout = None
    if hop == 'open' or (hop == 'mixed' and rng.random() < 0.4):
      lat = rng.choice([0.05, 0.2, 1.0])
      open_timeout = 0
    if hop == 'pool-queue':
      pool = {'min_watermark': rng.choice([0, 1]), 'max_watermark': 1, 'max_queue_len': 2 ** 31 - 1}
    elif hop == 'pool-connect':
      pool = {'min_watermark': 1, 'max_watermark': rng.choice([2, 4]), 'max_queue_len': 2 ** 31 - 1}
    elif hop == 'mixed' and kind == 'thrift':
      pool = {'min_watermark': rng.choice([0, 1]), 'max_watermark': rng.choice([1, 2]), 'max_queue_len': 8}
    w = StackWorld(env, rng, kind=kind, n_eps=1, balancer=rng.choice(['aperture', 'heap']), timeout=5.0,
                   client_id=None, open_timeout=open_timeout, policy=Policy(), pool=pool, connect_latency=lat)
    srv = w.servers[0]

    def off():
      """offset of a deadline relative to a hand-over instant"""
      if boundary:
        return rng.choice([0.0, 0.0, 0.01, -0.01])
      return rng.choice([-0.03, -0.011, -0.004, -0.0005, 0.0005, 0.004, 0.011, 0.03]) * (0.5 + rng.random())

    def grid(t):
      return round(t * 100) / 100.0 if boundary else t

    def call(T, plan_=None):
      cid = len(w.calls)
      if plan_ is not None:
        plan[cid] = plan_
      return w.call('echo', ('c%d-%d' % (cid, rng.getrandbits(20)),), timeout=max(T, 0.0011))

    t0 = env.now
    if hop == 'open':
      # client still connecting: deadline around the instant the open completes
      n = rng.randint(1, 4)
      for _ in range(n):
        call(lat + off(), {'delay': 0.001})
        if rng.random() < 0.5:
          env.advance(rng.random() * lat * 0.5)
      env.advance(lat * 2 + 0.2)
    elif hop == 'pool-connect':
      a = call(5.0, {'delay': 0.5})
      env.advance(0.01)
      srv.sim.connect_latency = L2 = rng.choice([0.05, 0.3])
      for _ in range(rng.randint(1, 3)):
        call(L2 + off(), {'delay': 0.001})
      env.advance(1.0)
    elif hop == 'pool-queue':
      D = rng.choice([0.1, 0.4])
      if boundary:
        env.run_until(grid(env.now + 0.01))
      call(5.0, {'delay': D})
      env.advance(0.002)
      for _ in range(rng.randint(1, 4)):
        call(D - 0.002 + off(), {'delay': 0.001})
        if rng.random() < 0.3:
          env.advance(0.001)
      call(5.0, {'delay': 0.001})      # a live waiter behind the expired ones
      env.advance(D * 2 + 0.3)
    elif hop == 'send-queue' and (idx // len(HOPS)) % 12 == 7:
      # a deep send queue: one call is written and never answered, then the peer stops draining and
      # more than a thousand further calls pile up behind the blocked write; the first call's
      # deadline passes meanwhile - its discard notice waits in the same queue and must still go out
      classes.add('send-queue:over-a-thousand-queued')
      call(0.5, {'drop': True})
      env.advance(0.01)
      srv.sim.send_delay = lambda conn: 5.0
      call(60.0, {'delay': 0.001})
      env.advance(0.001)        # the writer has taken this one and is blocked in its write
      for _ in range(1100):
        call(60.0, {'delay': 0.001})
      env.advance(1.0)
      srv.sim.send_delay = None
      env.advance(8.0)
    elif hop == 'send-queue' and (idx // len(HOPS)) % 4 == 1:
      # debug logging through a handler whose I/O takes a while (a socket handler under gevent): whichever
      # greenlet logs is suspended for that long wherever the library logs, and deadlines pass meanwhile
      classes.add('send-queue:slow-log-handler')
      call(5.0, {'delay': 0.001})
      env.advance(0.05)
      import gevent
      from scales.loadbalancer.heap import HeapBalancerSink
      lb_ = w.dispatcher.next_sink
      hops_ = 0
      while lb_ is not None and not isinstance(lb_, HeapBalancerSink) and hops_ < 8:
        lb_, hops_ = getattr(lb_, 'next_sink', None), hops_ + 1
      env.yielding_logs()
      if lb_ is not None:
        env.log_yield_ok = lambda: getattr(lb_._heap_lock, '_owner', None) is not gevent.getcurrent()
      env.log_yield_delay = D_ = rng.choice([0.004, 0.02, 0.1])
      for _ in range(rng.randint(2, 8)):
        call(D_ * rng.choice([0.3, 0.6, 1.0, 1.5, 2.5]) * (0.5 + rng.random()), {'delay': 0.001} if rng.random() < 0.5 else {'drop': True})
        if rng.random() < 0.5:
          env.advance(rng.random() * D_)
      env.advance(D_ * 30 + 0.5)
      env.yielding_logs(False)
    elif hop == 'send-queue' and (idx // len(HOPS)) % 4 == 2:
      # a backlog drained by writes that never block but cost CPU time: the deadlines of the calls
      # still queued pass while the send loop is busy writing the ones ahead of them
      classes.add('send-queue:cpu-bound-drain')
      srv.sim.send_cpu = rng.choice([0.001, 0.002, 0.004])
      T_ = rng.choice([0.03, 0.05, 0.1])
      for _ in range(rng.choice([30, 60, 120])):
        call(T_, {'drop': True} if rng.random() < 0.7 else {'delay': 0.001})
      env.advance(1.0)
      srv.sim.send_cpu = 0.0
    elif hop == 'send-queue':
      stall = rng.choice([0.05, 0.3])
      srv.sim.send_delay = lambda conn: stall if rng.random() < 0.7 else 0.0
      for _ in range(rng.randint(2, 6)):
        call(stall + off(), {'delay': 0.001})
        if rng.random() < 0.4:
          env.advance(rng.random() * stall * 0.6)
      env.advance(stall * 8 + 0.3)
      srv.sim.send_delay = None
    elif hop == 'blocked-write':
      # serial transport: the write of the request itself blocks (the peer stops draining after a
      # prefix of the frame) and the deadline passes inside that write; the peer drains again later
      stall = rng.choice([0.05, 0.3])
      srv.sim.send_delay = lambda conn: stall
      for _ in range(rng.randint(1, 3)):
        call(max(0.004, stall * rng.choice([0.3, 0.6]) + off()), {'delay': 0.001})
        env.advance(stall * 1.5)
      srv.sim.send_delay = None
      call(1.0, {'delay': 0.001})
      env.advance(stall * 3 + 0.3)
    elif hop == 'wire':
      for _ in range(rng.randint(1, 5)):
        T = rng.choice([0.02, 0.1, 0.4])
        k = rng.random()
        if k < 0.4:
          act = {'drop': True}
        elif k < 0.8:
          act = {'delay': max(0.0002, T + off())}
        else:
          act = {'delay': T * 3}
        call(T, act)
        if rng.random() < 0.5:
          env.advance(rng.random() * 0.05)
      env.advance(2.0)
    else:
      if kind == 'mux' and rng.random() < 0.5:
        srv.sim.send_delay = lambda conn: rng.choice([0.0, 0.0, 0.02, 0.1])
      for _ in range(rng.randint(3, 12)):
        T = rng.choice([0.01, 0.05, 0.2, 1.0])
        k = rng.random()
        act = {'drop': True} if k < 0.2 else {'delay': max(0.0002, T + off())} if k < 0.6 else {'delay': 0.001}
        call(T, act)
        if rng.random() < 0.6:
          env.advance(rng.random() * 0.08)
      env.advance(3.0)
    env.advance(1.0)

    # ---------------------------------------------------------------- oracle
    timeouts = 0
    discards_expected = 0
    by_cid = {}
    for q in srv.requests:
      by_cid.setdefault(cid_of(q), []).append(q)
    conns = {c.id: c for c in srv.sim.conns}
    for rec in w.calls:
      comps = rec['completions']
      if not comps or not (comps[0]['kind'] == 'exception' and isinstance(comps[0]['payload'], ScalesTimeout)):
        continue
      timeouts += 1
      s = comps[0]['seq']
      s_vt = comps[0]['vt']
      out.obligations += 1
      facts = {'stack': kind, 'hop': hop}
      sent_any = False
      for q in by_cid.get(rec['cid'], []):
        conn = conns[q['conn']]
        sends = conn.send_range_info(q['start'], q['end'])
        sent_any = True
        # A write that had begun before the TimeoutError counts as "on the wire" (a stalled
        # writer finishes the frame it started); the violation is a request whose first byte
        # is written afterwards.
        # (mux only: its send loop is a greenlet of its own and cannot be interrupted by one call's
        # deadline; the serial transport's own timeout interrupts a blocked write at the deadline,
        # so there no part of the request may follow the TimeoutError.)
        if kind == 'mux':
          late = [x for x in sends if x[2] > s] if min(x[2] for x in sends) > s else []
        else:
          late = [x for x in sends if x[2] > s]
        if late:
          out.violate('sent-after-timeout',
                      'call %d was handed TimeoutError %.4fs after issue (T=%.4f) and %d byte(s) of its request '
                      'were written %.4fs later' % (rec['cid'], s_vt - rec['t'], rec['T'],
                                                   sum(x[1] - x[0] for x in late), late[0][3] - s_vt),
                      facts, {'call': {'cid': rec['cid'], 't': rec['t'], 'T': rec['T']},
                              'sends': [(x[0], x[1], x[2], x[3] - rec['t']) for x in sends], 'timeout_seq': s})
          continue
        if kind == 'mux':
          answered_before = q.get('reply_vt') is not None and q['reply_vt'] <= s_vt and not q.get('dropped')
          closed = conn.client_closed or conn.server_closed
          if not answered_before and not closed:
            discards_expected += 1
            classes.add('discard-expected')
            out.obligations += 1
            got = [d for d in srv.discards if d['conn'] == conn.id and d['discard_tag'] == q['tag'] and d['seq'] > q['seq']]
            if not got:
              out.violate('discard-missing', 'call %d (tag %d) was written, timed out unanswered on an open '
                          'connection, and no Tdiscarded naming its tag followed' % (rec['cid'], q['tag']),
                          facts, {'discards': [(d['discard_tag'], d['vt'] - rec['t']) for d in srv.discards]})
      # undecoded trailing bytes carrying this call id
      needle = ('c%d-' % rec['cid']).encode()
      for conn in srv.sim.conns:
        tail = bytes(conn.c2s[conn.consumed:])
        p = tail.find(needle)
        if p >= 0:
          sent_any = True
          late = [x for x in conn.send_range_info(conn.consumed + p, conn.consumed + p + len(needle)) if x[2] > s]
          if late:
            out.violate('sent-after-timeout', 'call %d: bytes written after its TimeoutError (partial frame)' % rec['cid'],
                        facts, None)
      if not sent_any:
        classes.add('expired-not-sent')
    for bf in srv.bad_frames:
      out.violate('bad-frame', 'server could not decode client bytes: %r' % (bf,), {'stack': kind})
    w.close()
    env.advance(0.3)
    out.classes = sorted(classes)
    out.nontrivial = timeouts > 0
    out.extra = {'timeouts': timeouts, 'calls': len(w.calls), 'discards_expected': discards_expected,
                 'discards_seen': len(srv.discards), 'diag_greenlet_errors': len(env.errors)}
    out.sig = (kind, hop, boundary, min(timeouts, 4), min(discards_expected, 3), 'expired-not-sent' in classes,
               len(w.calls))
    if idx % 31 == 0:
      out.sample = {'stack': kind, 'hop': hop, 'boundary': boundary,
                    'calls': [dict(cid=r['cid'], T=round(r['T'], 4),
                                   done=[(round(c['vt'] - r['t'], 4), type(c['payload']).__name__) for c in r['completions']],
                                   server=[(round(q['vt'] - r['t'], 4), q.get('tag')) for q in by_cid.get(r['cid'], [])])
                              for r in w.calls[:6]],
                    'discards': [d['discard_tag'] for d in srv.discards]}
    return out


CHECK = C12()
