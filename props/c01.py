"""C01 - every call completes exactly once, no later than its deadline."""
from props.fullcommon import FullCheck


class C01(FullCheck):
  ID = 'C01'
  FOCUS = ('once:', 'deadline:', 'reply:wrong-value', 'reply:wrong-exception', 'reply:value-for-failing-call')
  RULE = ('case = one real client (Thrift pool+serial stack or ThriftMux stack from the public builders; '
          'aperture or heap balancer; 1-5 endpoints; open timeout 0 or None; optional small watermark '
          'pool) on the virtual clock; 3-120 calls with per-call timeouts from 5 ms to 30 s issued in '
          'bursts and trickles (also before the client has opened); per request the simulated server '
          'answers fast / around the caller\'s deadline (+-0.1..20 ms, or exactly on it in the boundary '
          'class) / late / never, possibly chunked, or dies after 1-30 bytes of the reply (end of stream inside a frame; a read loop that then reads the dead connection 2000 times in one instant without yielding is reported as a spin and broken); every 11th case logs at debug level through a handler that yields; refused, slow and black-holed connects; I/O faults '
          'at seeded operations; servers going down/up; members leaving/joining; same-instant timer '
          'order fifo/lifo/random; bursts of asynchronous calls with tiny timeouts after which the application '
          'keeps the CPU past their deadlines (the clock moves, the loop does not). Oracle per call over the whole history incl. a quiet tail >= 4 T_max: '
          'exactly one completion, not later than the deadline rounded up to 10 ms, TimeoutError not '
          'before the deadline, result unchanged afterwards, and a value/declared exception is the '
          'server\'s reply to that very call (shared with C02). non-trivial = the call reached a server or '
          'timed out; distinct by (stack, #endpoints, balancer, open mode, outcome multiset, race classes)')
  REQUIRED_CLASSES = ('thrift', 'mux', 'down-member-with-call-in-flight-leaves', 'issued-before-open', 'reply-before-timer', 'timer-before-reply',
                      'reply:near-deadline', 'reply:late', 'reply:never', 'server-down', 'leave', 'boundary',
                      'io-fault:recv', 'io-fault:send', 'cpu-hog', 'reply:undecodable', 'unserialisable-argument',
                      'reply-cut-short-then-eof', 'yielding-log-handler')
  ASSUMPTIONS = ('deadline = issue time + T on the virtual clock; rounded up to the 10 ms grid in exact '
                 'rationals, 2 us float tolerance; no timer lateness injected',)


CHECK = C01()
