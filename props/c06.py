"""C06 - aperture keeps a partitioned, bounded, load-tracking active subset."""
import math

from vlib.framework import BaseCheck, CaseResult

IDLE, OPEN, BUSY, CLOSED = 1, 2, 3, 4


class RefEma(object):
  """Reference smoothed load: the documented 5 s exponential moving average,
  sampled by the harness at each of its own dispatch/completion events."""
  def __init__(self, window=5.0):
    self.window = window
    self.t = None
    self.value = 0.0

  def update(self, ts, sample):
    if self.t is None:
      self.t, self.value = ts, float(sample)
    else:
      d = ts - self.t
      self.t = ts
      wgt = math.exp(-d / self.window)
      self.value = sample * (1 - wgt) + self.value * wgt
    return self.value


class C06(BaseCheck):
  ID = 'C06'
  RULE = ('case = one aperture balancer configuration (min_size 1-4, max_size in {min, min+k, 2^31}, '
          'bands (0.5,2) (1,1.5) (2,8), 1-16 members, jitter on/off) driven through 2-4 phases of steady '
          'traffic (K outstanding requests held by completing one and issuing one every delta for >= 60 '
          'virtual s; in every 5th case the wall clock is set back 20 or 60 s in the middle of each phase) separated by disturbances (member down/up, join/leave, bursts). Safety after every '
          'op: active/idle partition of the server set, contraction floor (and: never below the floor while idle members remain, whatever happened), load-driven growth cap, '
          'published gauges == set sizes; hook on _AdjustAperture: an event that finds smoothed load / size >= max_load with idle members and size < max_size returns with a larger active set. Bounded progress per healthy steady phase: every size seen in '
          'the last third lies in the interval implied by the band and a harness-side reference EMA. '
          'non-trivial = at least one steady phase judged or one contraction/expansion observed; distinct '
          'by (config, #members bucket, phase outcome classes, events mixed in)')
  ANCHORS = ('scales.loadbalancer.aperture:ApertureBalancerSink._AdjustAperture',
             'scales.loadbalancer.aperture:ApertureBalancerSink._TryExpandAperture',
             'scales.loadbalancer.aperture:ApertureBalancerSink._ContractAperture',
             'scales.loadbalancer.aperture:ApertureBalancerSink._Jitter',
             'scales.loadbalancer.aperture:ApertureBalancerSink._OnNodeDown')
  REQUIRED_ANCHORS = ANCHORS
  REQUIRED_CLASSES = ('phase:in-band', 'phase:pinned-max', 'phase:pinned-min', 'phase:pinned-members',
                      'expansion', 'contraction', 'jitter-round', 'member-down', 'leave-active',
                      'leave-during-jitter-round', 'close-raises-in-jitter-round',
                      'second-balancer-connecting', 'wall-clock-steps-back', 'yielding-log-handler', 'leave-at-jitter-start', 'phase:trickle', 'requests-outlive-mark-down', 'duplicates-in-initial-list', 'closed-unmarked-member-leaves', 'load-exactly-at-max-load')
  ASSUMPTIONS = ('smoothed load = harness reference EMA with the balancer\'s documented 5 s window and the '
                 'same sampling points, on the documented clock (wall time while it moves forward; standing still while a stepped-back wall clock is behind an earlier reading) (cross-checked against the published load_average gauge); phases whose '
                 'per-member load is within 1e-6 of a band edge for a relevant size are skipped and counted',
                 'bounded progress is judged only in phases with all members healthy, no membership change and '
                 'no jitter; eventual convergence is restated as: reached within 2/3 of a >= 60 s phase')
  QUICK_CASES = 480
  THOROUGH_CASES = 8000
  QUICK_WALL = 180
  THOROUGH_WALL = 1800
  MIN_DISTINCT = 10

  def setup(self, env, tier):
    from scales.loadbalancer.aperture import ApertureBalancerSink as A
    if not getattr(A._Jitter, '_verif_tap', False):
      orig = A._Jitter

      def _Jitter(self_):
        env.emit('lb.jitter.begin')
        env.c06_jitter_depth = getattr(env, 'c06_jitter_depth', 0) + 1
        hook = getattr(env, 'c06_jitter_hook', None)
        if hook is not None:
          hook('begin')
        try:
          return orig(self_)
        finally:
          env.c06_jitter_depth -= 1
          if hook is not None:
            hook('end')
          env.emit('lb.jitter.end')
      _Jitter._verif_tap = True
      _Jitter.__wrapped__ = orig
      A._Jitter = _Jitter

  def run_case(self, env, rng, idx, tier):
    from vlib.lbworld import make_world, Member
    from scales.loadbalancer.zookeeper import Endpoint
    from scales.varz import Source, VarzReceiver
    out = CaseResult()
    classes = set()
    mn = rng.choice([1, 1, 2, 3, 4])
    mx = rng.choice([mn, mn + 1, mn + 2, mn + 5, 2 ** 31, 2 ** 31])
    lo_load, hi_load = rng.choice([(0.5, 2.0), (0.5, 2.0), (1.0, 1.5), (2.0, 8.0)])
    jitter = rng.random() < 0.3
    params = {'min_size': mn, 'max_size': mx, 'min_load': lo_load, 'max_load': hi_load,
              'jitter_min_sec': 7 if jitter else 0, 'jitter_max_sec': 15 if jitter else 0}
    nmem = rng.choice([1, 2, 3, 4, 6, 8, 12, 16])
    open_mode = rng.choice(['sync', 'sync', 'delayed', 'flaky'])

    def open_delay(ch):
      if open_mode == 'sync':
        return 0.0, True
      if open_mode == 'delayed':
        return rng.choice([0.001, 0.05, 0.4, 1.5]), True
      return rng.choice([0.0, 0.02]), rng.random() > 0.2
    # another service of the same process with an aperture balancer of its own, one of whose members
    # hangs in connect for the whole case: what one balancer is waiting for is none of the other's business
    other = None
    if rng.random() < 0.25:
      classes.add('second-balancer-connecting')
      seen_other = []

      def other_delay(ch):
        seen_other.append(ch)
        return (0.0, True) if len(seen_other) == 1 else (1e7, True)
      other = make_world(env, rng, 'aperture', {'min_size': 1, 'max_size': 2 ** 31, 'min_load': 0.5, 'max_load': 2.0,
                                                 'smoothing_window': 5, 'jitter_min_sec': 0, 'jitter_max_sec': 0}, other_delay)
      oeps = [Endpoint('o%02d' % i, 7900 + i) for i in range(2)]
      for ep_ in oeps:
        other.ss.truth[ep_] = Member(ep_)
      other.top.Open()
      env.advance(0.3)
      act_ = [n_.endpoint for n_ in other.lb._heap[1:]]
      if act_:
        other.ss.leave(act_[0])        # its replacement starts connecting and never finishes
        env.advance(0.3)
    # in some cases the listing the balancer opens with names a member more than once (a repeated address in
    # the URI, a stale registration next to a fresh one)
    dups_ = rng.choice([1, 2]) if idx % 9 == 4 else 0
    if dups_:
      classes.add('duplicates-in-initial-list')
    w = make_world(env, rng, 'aperture', params, open_delay, get_servers_dups=dups_)
    lb, ss = w.lb, w.ss
    # invariant at a hook: a request event at which the smoothed load per active member (the
    # balancer's own average, the size the event found) is at or above max_load, with idle members
    # to draw from and the size below max_size, must have grown the active set when it returns
    growth_misses = []
    orig_adjust = lb._AdjustAperture

    shrink_misses = []
    stale_pending = set()
    env.c06_jitter_depth = 0
    # in some cases Close() of a member that a jitter round rotates out while it is idle reports
    # an error (closing a connection whose peer is already gone); the round's bookkeeping must
    # survive that
    jit_close_raises = jitter and rng.random() < 0.4
    armed, close_raised = set(), [False]

    orig_contract = lb._ContractAperture

    def contract(force=False):
      arm = jit_close_raises and force and rng.random() < 0.6
      if arm:
        for n_ in lb._heap[1:]:
          if w.model_out(n_.channel) == 0:
            n_.channel.close_raises = True
            armed.add(n_.channel)
        classes.add('close-raises-in-jitter-round')
      try:
        return orig_contract(force)
      finally:
        if arm:
          if any(c_ in armed and not c_.close_raises for c_ in w.channels):
            close_raised[0] = True      # an armed Close() was called and raised
          armed.clear()
          for c_ in w.channels:
            c_.close_raises = False
    lb._ContractAperture = contract
    pending_log = []
    orig_try_expand = lb._TryExpandAperture

    jitter_leave = []
    chosen_left = []

    def try_expand(leave_pending=False):
      if leave_pending and env.log_yields is not None and lb._idle_endpoints and rng.random() < 0.5:
        # (cases with the yielding log handler) an active member leaves in the very instant a jitter
        # round starts: its notification is delivered at the round's first yield
        act_ = [n_.endpoint for n_ in lb._heap[1:] if n_.endpoint in ss.truth and n_.endpoint not in lb._pending_endpoints]
        if len(lb._idle_endpoints) == 1 and list(lb._idle_endpoints)[0] in ss.truth and rng.random() < 0.5:
          # ... or the only idle member, i.e. the very one the round is about to bring in (the round then
          # finds it gone and gives up with a KeyError in its own greenlet: harmless, and filtered below)
          classes.add('chosen-idle-member-leaves-at-jitter-start')
          chosen_left.append(True)
          ss.leave(list(lb._idle_endpoints)[0])
        elif len(act_) > 1:
          classes.add('leave-at-jitter-start')
          jitter_leave.append(True)
          ss.leave(rng.choice(sorted(act_, key=str)))
      r_ = orig_try_expand(leave_pending)
      if r_[1] is not None:
        pending_log.append((env.now, str(r_[1]), 'jitter' if leave_pending else 'load/replacement', r_[0].ready()))
      return r_
    lb._TryExpandAperture = try_expand

    def adjust_hook(amount):
      size0, idle0 = lb._size, len(lb._idle_endpoints)
      # the mirror image for contraction: the event finds the smoothed load per active member at or
      # below min_load, more than min_size healthy members active, no member connecting and no
      # jitter round in progress
      chans0 = [n_.channel for n_ in lb._heap[1:]]
      can_shrink = (size0 > mn and sum(1 for c_ in chans0 if c_._state <= 3) > mn
                    and not any(c_._state == IDLE for c_ in chans0) and not env.c06_jitter_depth
                    and not any(c_.opens_in_flight for c_ in w.channels)
                    # an endpoint the balancer treats as connecting counts as such until the event loop
                    # has run the completion callbacks of its open: only entries that were already
                    # there at the last quiescent point (nothing in flight any more) are stale
                    and set(lb._pending_endpoints) <= stale_pending)
      r_ = orig_adjust(amount)
      stats['adjust_events'] = stats.get('adjust_events', 0) + 1
      if can_shrink and lb._ema.value / size0 <= lo_load * (1 - 1e-9):
        stats['shrink_events'] = stats.get('shrink_events', 0) + 1
        if lb._size >= size0:
          shrink_misses.append((size0, lb._ema.value, sorted(map(str, lb._pending_endpoints)),
                                {'t': env.now, 'pending_log': pending_log[-6:],
                                 'amount': amount, 'size_after': lb._size,
                                 'channels': [(repr(c_), c_.opens_in_flight, c_.close_steps) for c_ in w.channels],
                                 'heap': [repr(n_.channel) for n_ in lb._heap[1:]]}))
      # (at or above: the edge itself is judged when the smoothed value is a whole number - calls minutes apart -
      # and the quotient is exact; otherwise a hair above, to stay clear of rounding)
      exact_edge = lb._ema.value == int(lb._ema.value) and lb._ema.value / size0 == hi_load if size0 > 0 else False
      if size0 > 0 and idle0 and size0 < mx and (lb._ema.value / size0 >= hi_load * (1 + 1e-9) or exact_edge):
        stats['growth_events'] = stats.get('growth_events', 0) + 1
        if lb._size <= size0:
          growth_misses.append((size0, idle0, lb._ema.value, len(lb._pending_endpoints)))
      return r_
    lb._AdjustAperture = adjust_hook
    pool = [Endpoint('a%02d' % i, 7100 + i) for i in range(20)]
    for ep in pool[:nmem]:
      ss.truth[ep] = Member(ep)
    label = w.top._varz  # noqa (kept alive)
    svc = lb._properties['label']
    ema = RefEma(5.0)
    # The reference is sampled on the clock the smoothing is documented to use: the wall clock as long
    # as it moves forward, standing still while it is behind an earlier reading (a stepped-back clock).
    mono_last = [0.0]

    def mono():
      t_ = env.clock.time()
      if t_ > mono_last[0]:
        mono_last[0] = t_
      return mono_last[0]
    step_case = idx % 5 == 2
    if idx % 7 == 3:
      # debug logging through a handler that yields: the balancer logs in the middle of widening and
      # contracting, so jitter rounds, leaves and traffic interleave at those points
      env.yielding_logs()
      env.log_yield_ok = w.lock_free
      classes.add('yielding-log-handler')
    # feed the reference EMA from the harness' own boundary events
    chan_cls = w.MemberChannel
    orig_apr = chan_cls.AsyncProcessRequest

    def apr(self_, sink_stack, msg, stream, headers):
      ema.update(mono(), sum(w.out.values()) + 1)
      return orig_apr(self_, sink_stack, msg, stream, headers)
    chan_cls.AsyncProcessRequest = apr
    term = w.terminator
    orig_deliver = term.AsyncProcessResponse

    def deliver(sink_stack, context, stream, msg):
      first = not context['deliveries'] and context['channel'] is not None
      orig_deliver(sink_stack, context, stream, msg)
      if first:
        ema.update(mono(), sum(w.out.values()))
    term.AsyncProcessResponse = deliver

    stats = {'expansions': 0, 'contractions': 0, 'phases_judged': 0, 'phases_skipped_edge': 0,
             'phases_skipped_unhealthy': 0, 'jitter_rounds': 0, 'ema_crosscheck_mismatch': 0}

    def viol(kind_, msg, facts=None, witness=None):
      f = {'min_size': mn, 'max_size': mx if mx < 2 ** 31 else 'inf', 'band': [lo_load, hi_load]}
      f.update(facts or {})
      if len(out.violations) < 6:
        out.violate(kind_, msg, f, witness)

    def gauge(name):
      d = VarzReceiver.VARZ_DATA.get('scales.loadbalancer.Aperture.' + name, {})
      return d.get(Source(service=svc), None)

    def sizes():
      return len(lb._heap) - 1, len(lb._idle_endpoints)

    jitter_seen = [0]
    in_race = [False]

    def jitter_active_since(mark):
      n = sum(1 for e in env.events[mark:] if e['kind'].startswith('lb.jitter'))
      return n > 0

    def safety(pre_size, ev_mark, log_mark, left_active, joined):
      """Evaluated after every harness op at a quiescent point."""
      active = [n.endpoint for n in lb._heap[1:]]
      idle = set(lb._idle_endpoints)
      truth = set(ss.truth)
      s = len(active)
      if not ss.pending:
        out.obligations += 1
        if len(set(active)) != s or set(active) & idle or (set(active) | idle) != truth:
          viol('partition', 'active=%r idle=%r server set=%r' % (
            sorted(map(str, active)), sorted(map(str, idle)), sorted(map(str, truth))),
            {'dup': len(set(active)) != s, 'overlap': bool(set(active) & idle)})
      out.obligations += 1
      ga, gi = gauge('active'), gauge('idle')
      if ga is not None and (ga != s or gi != len(idle)) and not close_raised[0]:
        # (after an injected Close() error the published gauges are not judged: the statement does
        # not speak of them, and the error leaves the round before they are refreshed)
        viol('gauges', 'published active/idle gauges %r/%r, sets have %d/%d' % (ga, gi, s, len(idle)), {})
      logs = env.logs[log_mark:]
      marked_down = any('Marking node' in l[2] and 'down' in l[2] for l in logs) or \
        any('Exception caught opening channel' in l[2] for l in logs)
      jit = jitter_active_since(ev_mark)
      if jit:
        classes.add('jitter-round')
      stale_pending.clear()
      if not env.c06_jitter_depth and not any(c_.opens_in_flight for c_ in w.channels):
        stale_pending.update(lb._pending_endpoints)
      if not ss.pending and not lb._pending_endpoints:
        # whatever happened (leave, failure, contraction): with idle members to draw from the
        # active set is never left below the floor
        out.obligations += 1
        if s < min(mn, len(truth)) and idle:
          viol('below-floor', '%d active members, min_size=%d, members=%d, although %d idle member(s) remain (after %s)' % (
            s, mn, len(truth), len(idle), 'a leave of an active member' if left_active else 'an operation'),
            {'after_leave': bool(left_active)})
      if s < pre_size:
        stats['contractions'] += 1
        classes.add('contraction')
        if not left_active:
          out.obligations += 1
          if s < min(mn, len(truth)):
            viol('contraction-floor', 'contraction left %d active members, min_size=%d, members=%d' % (
              s, mn, len(truth)), {})
      if s > pre_size:
        stats['expansions'] += 1
        classes.add('expansion')
        if not (marked_down or jit or joined or left_active):
          out.obligations += 1
          if s > mx:
            viol('growth-cap', 'load-driven expansion to %d active members, max_size=%d' % (s, mx), {})
        elif marked_down and not (jit or joined or left_active) and s > mx and \
            not any('Exception caught opening channel' in l[2] for l in logs):
          # growth past max_size is only legitimate as the replacement of a member that is down.  If
          # every node this operation marked down is merely connecting (never failed), nothing was
          # there to replace: a connecting member is marked down quietly and comes back when it opens
          out.obligations += 1
          marked = set()
          for l in logs:
            if 'Marking node' in l[2] and l[2].rstrip().endswith('down'):
              marked.add(l[2].split('Marking node', 1)[1].rsplit('down', 1)[0].strip())
          act_ch = [c for c in w.heap_channels() if str(c.ep) in marked]
          if marked and act_ch and len(act_ch) == len(marked) and \
              all(c._state == IDLE and not c.down and not c.close_steps for c in act_ch):
            viol('growth-cap', 'expansion to %d active members, max_size=%d: the only member(s) marked down, %s, were '
                 'still connecting and had not failed, yet replacements were pulled in' % (s, mx, sorted(marked)),
                 {'replacement_without_failure': True})

    def op(fn, left_active=False, joined=False):
      pre = sizes()[0]
      ev_mark, log_mark = len(env.events), len(env.logs)
      fn()
      env.settle()
      if jitter_leave:
        del jitter_leave[:]
        left_active = True
      safety(pre, ev_mark, log_mark, left_active, joined)
      if jitter and lb._pending_endpoints and not in_race[0] and rng.random() < 0.35:
        # a membership change lands while a jitter round is still waiting for its new member to open
        in_race[0] = True
        try:
          act = [n.endpoint for n in lb._heap[1:] if n.endpoint not in lb._pending_endpoints]
          if act and rng.random() < 0.7:
            ep_ = rng.choice(sorted(act, key=str))
            classes.add('leave-during-jitter-round')
            op(lambda: ss.leave(ep_), left_active=True)
          else:
            op(lambda: ss.join(rng.choice(pool)), joined=True)
        finally:
          in_race[0] = False

    # ---------------------------------------------------------------- open
    open_ar = w.top.Open()
    guard = 0
    while not open_ar.ready() and guard < 100:
      env.advance(0.1)
      guard += 1
    env.advance(0.5)
    safety(sizes()[0], len(env.events), len(env.logs), False, True)

    live = []     # in-flight requests (not timed out)

    def issue():
      r = w.dispatch()
      if r['channel'] is not None and not r['failed_fast'] and not r['deliveries']:
        live.append(r)

    def finish_one():
      if live:
        r = live.pop(rng.randrange(len(live)) if rng.random() < 0.5 else 0)
        w.complete(r, rng.choice(['reply', 'reply', 'error']))

    nphases = rng.choice([2, 3, 4]) if tier == 'thorough' else rng.choice([2, 3])
    phase_outcomes = []
    for ph in range(nphases):
      # ---- disturbance between phases
      for _ in range(rng.choice([0, 1, 3, 6])):
        k = rng.random()
        if k < 0.25:
          cands = [c for c in w.heap_channels() if c._state == OPEN]
          if cands:
            c = rng.choice(cands)

            late = rng.random() < 0.4 and bool(c.inflight)
            if late:
              # the member's channel reports closed while its requests are still unanswered (they fail a
              # moment later): the balancer finds it dead and marks it down first
              classes.add('requests-outlive-mark-down')

            def down(c=c, late=late):
              c.set_down()
              pending_ = list(c.inflight)
              if late:
                for _i in range(3):
                  issue()
              for r in pending_:
                if r in live:
                  live.remove(r)
                w.complete(r, 'connection-fault')
              issue()    # the balancer notices a dead member only when it reaches the heap top
            op(down)
            classes.add('member-down')
        elif k < 0.32:
          # an active member's connection fails during a lull (no dispatch visits it, so the balancer has not
          # marked it down or replaced it) and the member leaves before the next request
          cands = [c for c in w.heap_channels() if c._state == OPEN and not c.inflight and c.ep in ss.truth]
          if cands:
            c = rng.choice(cands)
            classes.add('closed-unmarked-member-leaves')

            def fail_and_leave(c=c):
              c.set_down()
              ss.leave(c.ep)
            op(fail_and_leave, left_active=True)
        elif k < 0.4:
          cands = [c for c in w.channels if c.down and not c.close_steps]
          if cands:
            op(lambda: rng.choice(cands).set_up())
        elif k < 0.6 and ss.truth:
          ep = rng.choice(sorted(ss.truth, key=str))
          was_active = any(n.endpoint == ep for n in lb._heap[1:])
          if was_active:
            classes.add('leave-active')
          op(lambda: ss.leave(ep), left_active=was_active)
        elif k < 0.8:
          ep = rng.choice(pool)
          op(lambda: ss.join(ep), joined=True)
        else:
          def burst():
            for _i in range(rng.randint(1, 12)):
              issue()
          op(burst)
        op(lambda: env.advance(rng.random() * 2.0))
      # ---- steady phase
      K = rng.choice([1, 2, 3, 5, 8, 13, 20, 40])
      delta = rng.choice([0.1, 0.25, 0.5, 1.0])
      length = 60.0 + rng.random() * 30
      # healthy phase?  bring members back up first in most cases
      if rng.random() < 0.8:
        for c in w.channels:
          if c.down and not c.close_steps:
            c.set_up()
      order = rng.choice(['complete-first', 'issue-first', 'split'])
      t_end = env.now + length
      seen = []
      s_trace = []
      ev_mark0 = len(env.events)
      truth0 = set(ss.truth)
      size_at_phase_start = sizes()[0]     # (may exceed max_size already: replacements of members that were down)
      log_mark_phase = len(env.logs)
      for _i in range(K + 3):
        if len(live) >= K:
          break
        op(issue)
      while len(live) > K:
        op(finish_one)
      stepped = not step_case
      while env.now < t_end:
        if not stepped and env.now > t_end - length / 2:
          # the wall clock is set back (NTP step, VM resume) in the middle of a steady phase
          stepped = True
          env.clock.wall_offset -= rng.choice([20.0, 60.0])
          classes.add('wall-clock-steps-back')
        if order == 'complete-first':
          op(finish_one)
          op(issue)
        elif order == 'issue-first':
          op(issue)
          op(finish_one)
        else:
          op(finish_one)
          op(lambda: env.advance(delta / 2))
          op(issue)
        for _i in range(3):       # a request may have failed fast
          if len(live) >= K:
            break
          op(issue)
        op(lambda: env.advance(delta if order != 'split' else delta / 2))
        if env.now > t_end - length / 3:
          seen.append(sizes()[0])
          s_trace.append(ema.value)
        if len(out.violations) >= 6:
          break
      # ---- judge the phase
      active_ch = w.heap_channels()
      healthy = (all(c._state == OPEN for c in active_ch) and not any(c.down for c in w.channels if not c.close_steps)
                 and open_mode != 'flaky' and set(ss.truth) == truth0 and not lb._pending_endpoints)
      jit = jitter_active_since(ev_mark0)
      # cross-check the reference EMA against the balancer's own smoothing
      if abs(lb._ema.value - ema.value) > 1e-6 * max(1.0, ema.value):
        # The balancer's own smoothed load has drifted from the smoothed number of requests that
        # are really outstanding.  The property speaks about the latter, so the phase is still
        # judged with the reference value (the drift itself is only counted).
        stats['ema_crosscheck_mismatch'] += 1
      if healthy and jit and mx < 2 ** 31 and not env.c06_jitter_depth and \
          not any(c_.opens_in_flight for c_ in w.channels) and \
          not any('Marking node' in l_[2] or 'Exception caught opening channel' in l_[2] for l_ in env.logs[log_mark_phase:]):
        # (a member that failed before the phase is only found - marked down and replaced, beyond max_size if need
        # be - when a dispatch of the phase reaches it: growth of that kind is not the rounds' doing either)
        # jitter rounds took place in this steady phase, none is in progress now, every active member is
        # healthy and nothing is connecting: a round swaps one member for another, so whatever the load the
        # active set has not grown beyond max_size in this phase (that would be load-driven growth by another
        # door; a size above max_size that the phase began with - replacements of members that were down - is
        # not the rounds' doing)
        out.obligations += 1
        if sizes()[0] > max(mx, size_at_phase_start):
          viol('growth-cap', 'the jitter rounds of a steady phase (K=%d for %.0fs, smoothed load %.2f) left %d members active (all '
               'healthy, nothing connecting); the phase began with %d, max_size=%d' % (
                 K, length, ema.value, sizes()[0], size_at_phase_start, mx), {'after_jitter_rounds': True})
      if not healthy or jit or not seen or not ss.truth or min(seen) < 1:
        stats['phases_skipped_unhealthy'] += 1
        continue
      members = len(ss.truth)
      smin, smax = min(s_trace), max(s_trace)

      def E(s, S):
        return S / s >= hi_load and s < members and s < mx

      def C(s, S):
        return S / s <= lo_load and s > mn
      rng_s = range(1, max(members, 1) + 1)
      edge = False
      for s in rng_s:
        for S in (smin, smax):
          for bound in (hi_load, lo_load):
            if abs(S / s - bound) < 1e-6 * max(1.0, bound):
              edge = True
      if edge:
        stats['phases_skipped_edge'] += 1
        continue
      los, his = [], []
      for S in (smin, smax):
        los.append(min([s for s in rng_s if not E(s, S)] or [members]))
        his.append(max([s for s in rng_s if not C(s, S)] or [1]))
      a, b = min(los), max(his)
      if a > b:
        a, b = min(his), max(los)      # no integer size inside the band: +-1 oscillation is correct
        classes.add('phase:oscillating')
      a = min(a, members)
      stats['phases_judged'] += 1
      out.obligations += 1
      bad = [s for s in seen if s < a or s > b]
      final = seen[-1]
      per_member = smax / max(final, 1)
      if final >= mx and E(final - 1 if final > 1 else 1, smax) is not None and smax / final >= hi_load:
        cls = 'pinned-max'
      elif final >= members and smax / final >= hi_load:
        cls = 'pinned-members'
      elif final <= mn and smin / final <= lo_load:
        cls = 'pinned-min'
      else:
        cls = 'in-band'
      classes.add('phase:' + cls)
      phase_outcomes.append(cls)
      if bad:
        viol('steady-size', 'steady traffic K=%d for %.0fs (smoothed load %.3f..%.3f): active sizes %r seen in '
             'the last third, expected within [%d, %d] (members=%d)' % (
               K, length, smin, smax, sorted(set(seen)), a, b, members),
             {'direction': 'too-small' if min(bad) < a else 'too-large'},
             {'K': K, 'delta': delta, 'order': order, 'sizes': seen[-20:], 'per_member_load': per_member})
      if len(out.violations) >= 6:
        break
    if idx % 4 == 1 and len(out.violations) < 6 and ss.truth and not jitter and open_mode != 'flaky':
      # ---- trickle traffic: one short request every 12-61 s, never more than one outstanding.  The
      # smoothed load cannot exceed 1, so whatever the band (max_load >= 1.5) the active set never
      # has a reason to grow.
      while live:
        op(finish_one)
      for c_ in w.channels:
        if c_.down and not c_.close_steps:
          c_.set_up()
      op(lambda: env.advance(30.0))
      log_mark_t = len(env.logs)
      truth_t = set(ss.truth)
      grew = []
      for _i in range(6):
        pre_t = sizes()[0]
        op(issue)
        op(lambda: env.advance(0.05))
        op(finish_one)
        gap_t = rng.choice([12.0, 30.0, 61.0])
        op(lambda: env.advance(gap_t))
        if sizes()[0] > max(pre_t, mn):
          grew.append((pre_t, sizes()[0], lb._ema.value))
      quiet_t = (all(c_._state == OPEN for c_ in w.heap_channels()) and set(ss.truth) == truth_t and
                 not any('Marking node' in l_[2] or 'Exception caught' in l_[2] for l_ in env.logs[log_mark_t:]))
      if quiet_t:
        classes.add('phase:trickle')
        out.obligations += 1
        if grew:
          viol('trickle-growth', 'one 50 ms request every 12-61 s (never more than one outstanding, max_load=%.1f): the active '
               'set grew %r (size before, after, the balancer\'s smoothed load)' % (hi_load, grew[:3]), {})
    if idx % 3 == 0 and not jitter and open_mode != 'flaky' and len(out.violations) < 6 and ss.truth and hi_load == int(hi_load):
      # long-lived calls started minutes apart: the smoothed load equals the number outstanding exactly, so the
      # load per active member sits exactly on max_load when the last of them arrives (at or above means: grow)
      classes.add('load-exactly-at-max-load')
      for r_ in list(live):
        live.remove(r_)
        op(lambda r_=r_: w.complete(r_, 'reply'))
      for c_ in w.channels:
        if c_.down and not c_.close_steps:
          c_.set_up()
      op(lambda: env.advance(300.0))
      for _k in range(40):
        if not sizes()[1] or sizes()[0] >= mx or len(out.violations) >= 6:
          break
        op(lambda: env.advance(200.0))
        op(issue)
      for r_ in list(live):
        live.remove(r_)
        op(lambda r_=r_: w.complete(r_, 'reply'))
    out.obligations += 1
    if growth_misses:
      g0 = growth_misses[0]
      viol('growth-stalled', '%d request event(s) found the smoothed load per active member at or above max_load=%.2f '
           '(first: %.3f outstanding over %d active) with %d idle member(s) and size below max_size=%s, and the active '
           'set did not grow (%d member(s) were still opening)' % (
             len(growth_misses), hi_load, g0[2], g0[0], g0[1], mx if mx < 2 ** 31 else 'inf', g0[3]),
           {'pending': g0[3] > 0})
    out.obligations += 1
    if shrink_misses:
      g0 = shrink_misses[0]
      viol('shrink-stalled', '%d request event(s) found the smoothed load per active member at or below min_load=%.2f '
           '(first: %.3f outstanding over %d active, min_size=%d) with more than min_size healthy members active, no '
           'member connecting and no jitter round in progress, and the active set did not shrink (endpoints the '
           'balancer still treats as connecting: %r)' % (len(shrink_misses), lo_load, g0[1], g0[0], mn, g0[2]),
           {'stale_pending': bool(g0[2])}, g0[3])
    # ---------------------------------------------------------------- drain
    for r in list(live):
      w.complete(r, 'reply')
    env.advance(1.0)
    chan_cls.AsyncProcessRequest = orig_apr
    lb._ContractAperture = orig_contract     # no injected errors once the case is being torn down
    w.top.Close()
    if other is not None:
      other.top.Close()
    # a round that is still waiting for its newcomer would schedule the next one when it ends:
    # the balancer of a finished case must not keep jittering into the following cases
    lb._ScheduleNextJitter = lambda: None
    if jitter and getattr(lb, '_next_jitter', None):
      lb._next_jitter()      # cancel the pending jitter timer of this case
    env.settle()
    for e in env.errors:
      if jit_close_raises and e['type'] == 'OSError' and 'Transport endpoint is not connected' in str(e['value']):
        continue      # the injected Close() error, escaping from the jitter round's greenlet
      if chosen_left and e['type'] == 'KeyError' and '_TryExpandAperture' in e['tb']:
        continue      # the round whose chosen member left while it was logging
      viol('greenlet-error:' + e['type'], 'unhandled exception: %s: %s\n%s' % (e['type'], e['value'], e['tb'][-300:]),
           {'exc': e['type']})
    out.classes = sorted(classes)
    out.nontrivial = stats['phases_judged'] > 0 or stats['expansions'] + stats['contractions'] > 0
    out.extra = stats
    out.sig = (mn, min(mx, 99), lo_load, hi_load, nmem, jitter, open_mode, tuple(phase_outcomes))
    if idx % 19 == 0:
      out.sample = {'params': {k: (v if v < 2 ** 31 else 'inf') for k, v in params.items()}, 'members': nmem,
                    'open_mode': open_mode, 'phase_outcomes': phase_outcomes, 'stats': stats,
                    'classes': sorted(classes)}
    return out


CHECK = C06()
