"""C16 - singleton pool and shared sinks keep one connection, opened and closed once."""
from vlib.framework import BaseCheck, CaseResult

IDLE, OPEN, BUSY, CLOSED = 1, 2, 3, 4


class C16(BaseCheck):
  ID = 'C16'
  RULE = ('three case kinds. singleton: real SingletonPoolSink over harness-owned multiplexing connections '
          '(open delay 0-0.5 s, may fail): 10-120 ops of concurrent/sequential requests (each in its own '
          'greenlet), completions, connection failures at any point (idle, opening, busy), time advances, the holder '
          'closing the pool and re-opening / using it while an underlying Close() that yields is still in flight, '
          'windows in which the healthy connection reports Busy; '
          'provider-side invariants: <= 1 live connection, requests racing the first open share it, a failed '
          'connection is replaced on the next request and never used again, nothing is live after the last holder '
          'closed. refcount: random Open/Close '
          'histories by 1-6 holders on a real RefCountedSink vs. a counter model (underlying Open exactly on '
          '0->1, Close exactly on 1->0, surplus closes ignored, same open result for all). shared: random '
          'CreateSink/drop histories on a real SharedSinkProvider (in half of them also 2-4 holders asking for one key at the same instant from separate greenlets, with debug logging through a handler that yields; same key => same object while a holder '
          'lives; different key => different object). Singleton histories also have further holders that open right behind the first one (some of them gone again before the connection is even being created) and requesters whose greenlet is killed while the connection they made the pool create is still opening. non-trivial = at least 3 ops judged; distinct by '
          '(kind, op classes, sizes)')
  ANCHORS = ('scales.pool.singleton:SingletonPoolSink._Get', 'scales.sink:RefCountedSink.Open',
             'scales.sink:RefCountedSink.Close', 'scales.sink:SharedSinkProvider.CreateSink')
  REQUIRED_ANCHORS = ANCHORS
  REQUIRED_CLASSES = ('singleton', 'refcount', 'shared', 'concurrent-first-requests', 'replaced-after-failure',
                      'surplus-close', 'reopen-after-last-close', 'same-key', 'different-key', 'shared:kafka-broker-key',
                      'underlying-closed-while-held', 'underlying-state-changes',
                      'requester-abandoned-while-opening', 'several-holders', 'holder-closes-while-connecting', 'request-after-last-close', 'holder-gone-before-connect', 'concurrent-holders', 'open-during-yielding-last-close', 'open-count-zero-while-held', 'underlying-open-raises',
                      'surplus-close-from-inside-close', 'underlying-close-raises', 'underlying-open-fails-later')
  QUICK_CASES = 1500
  THOROUGH_CASES = 120000
  QUICK_WALL = 180
  THOROUGH_WALL = 1800
  MIN_DISTINCT = 10

  def run_case(self, env, rng, idx, tier):
    kind = ('singleton', 'refcount', 'shared')[idx % 3]
    out = CaseResult()
    out.classes = [kind]
    getattr(self, '_' + kind)(env, rng, idx, out)
    for e in env.errors:
      out.violate('greenlet-error:' + e['type'], 'unhandled exception: %s: %s\n%s' % (
        e['type'], e['value'], e['tb'][-300:]), {'kind': kind})
    return out

  # ------------------------------------------------------------------ singleton
  def _singleton(self, env, rng, idx, out):
    import gevent
    from scales.asynchronous import AsyncResult
    from scales.constants import SinkProperties
    from scales.loadbalancer.zookeeper import Endpoint
    from scales.message import MethodCallMessage, MethodReturnMessage
    from scales.pool.singleton import SingletonPoolSink
    from scales.sink import ClientMessageSink, ClientMessageSinkStack
    classes = set(out.classes)
    conns = []
    reqs = []
    open_delay = rng.choice([0.0, 0.0, 0.05, 0.5])
    fail_open_p = rng.choice([0.0, 0.0, 0.2])
    close_delay = rng.choice([0.0, 0.0, 0.002, 0.05])     # an underlying Close() that yields while tearing down

    class Conn(ClientMessageSink):
      def __init__(self):
        super(Conn, self).__init__()
        self.id = len(conns)
        self._state = IDLE
        self.open_ar = None
        self.open_started = 0
        self.inflight = []
        self.failed = False
        self.close_calls = 0
        conns.append(self)
        env.emit('prov.create', conn=self.id)

      @property
      def state(self):
        return self._state

      def Open(self):
        if self.open_ar is None:
          self.open_started += 1
          self.open_ar = ar = AsyncResult()
          ok = rng.random() >= fail_open_p

          def fin():
            if self.failed or self._state == CLOSED:
              if not ar.ready():
                ar.set_exception(Exception('connect failed'))
              return
            if ok:
              self._state = OPEN
              ar.set(True)
            else:
              self.fail('connect failed')
              if not ar.ready():
                ar.set_exception(Exception('connect failed'))
          if open_delay == 0:
            fin()
          else:
            g = gevent.Greenlet(fin)
            g.start_later(open_delay * (0.5 + rng.random()))
        return self.open_ar

      def Close(self):
        self.close_calls += 1
        self._state = CLOSED
        env.emit('prov.close', conn=self.id)
        if close_delay:
          gevent.sleep(close_delay)

      def fail(self, why):
        if self.failed:
          return
        self.failed = True
        self.failed_seq = env.emit('prov.fail', conn=self.id)['seq']
        self._state = CLOSED
        if self.open_ar is not None and not self.open_ar.ready():
          self.open_ar.set_exception(Exception(why))     # like the real transports' shutdown
        self.on_faulted.Set(Exception(why))
        for r in list(self.inflight):
          self.inflight.remove(r)
          r['stack'].AsyncProcessResponseMessage(MethodReturnMessage(error=Exception(why)))

      def AsyncProcessRequest(self, sink_stack, msg, stream, headers):
        r = reqs[msg.args[0]]
        r['conn'] = self
        env.emit('prov.request', conn=self.id, rid=r['id'])
        out.obligations += 1
        if self.failed and r['issued_seq'] > self.failed_seq:
          out.violate('singleton:dead-connection-used', 'request %d, issued after connection %d had failed, '
                      'was still given that connection' % (r['id'], self.id), {})
        if self._state not in (OPEN, BUSY):
          sink_stack.AsyncProcessResponseMessage(MethodReturnMessage(error=Exception('Sink not open.')))
          return
        r['stack'] = sink_stack
        self.inflight.append(r)

      def AsyncProcessResponse(self, *a):
        pass

    class Provider(object):
      def CreateSink(self, props):
        return Conn()

    class Term(ClientMessageSink):
      def AsyncProcessRequest(self, *a):
        raise NotImplementedError()

      def AsyncProcessResponse(self, sink_stack, context, stream, msg):
        context['deliveries'].append(msg)
    term = Term()
    props = {SinkProperties.Endpoint: Endpoint('sh', 1), SinkProperties.Label: 's'}
    pool = SingletonPoolSink(Provider(), None, props)

    def live():
      return [c for c in conns if c._state != CLOSED]

    def inv():
      out.obligations += 1
      lv = live()
      if len(lv) > 1:
        out.violate('singleton:two-connections', 'connections %r are live at the same time' % (
          [c.id for c in lv],), {})

    def issue():
      r = {'id': len(reqs), 'issued_seq': env.emit('req.issue', rid=len(reqs))['seq'], 'deliveries': [], 'conn': None, 'live_before': [c.id for c in live()],
           'opening_before': [c.id for c in conns if c._state == IDLE and c.open_ar is not None and not c.failed]}
      reqs.append(r)
      msg = MethodCallMessage(None, 'm', (r['id'],), {})
      stack = ClientMessageSinkStack()
      stack.Push(term, r)
      r['g'] = gevent.spawn(pool.AsyncProcessRequest, stack, msg, None, {})
      return r

    if open_delay and idx % 4 == 3:
      # the only holder opens the pool and closes it again while the connection is still being made
      # (no request is waiting for it): that connection is the pool's, and closed with it
      classes.add('holder-closes-while-connecting')
      pool.Open()
      env.advance(open_delay * 0.2)
      mid_ = [c for c in conns if c._state == IDLE and c.open_ar is not None and not c.open_ar.ready()]
      pool.Close()
      env.advance(open_delay * 2 + 0.1)
      out.obligations += 1
      if mid_ and live():
        out.violate('singleton:leaked-after-close', 'connections %r, still being made when the last holder closed the pool, are '
                    'up afterwards' % ([c.id for c in live()],), {'closed_while_connecting': True})
    use_pool_open = rng.random() < 0.5
    extra_holders = 0
    if use_pool_open:
      pool.Open()
      if rng.random() < 0.4:
        # further holders of the same pool: they open right behind the first one (the connection is
        # not even being created yet) and some of them are gone again at once
        classes.add('several-holders')
        for _ in range(rng.choice([1, 2])):
          pool.Open()
          extra_holders += 1
          if rng.random() < 0.5:
            pool.Close()
            extra_holders -= 1
            classes.add('holder-gone-before-connect')
    nops = rng.choice([10, 30, 60, 120])
    first_burst = rng.choice([1, 2, 5])

    def abandon_first_requester():
      # the caller of the request that makes the pool create its connection gives up (its greenlet
      # is killed) while the connection is still opening: the pool still has that one connection,
      # the next request shares it, closing the pool closes it
      r_ = issue()
      gevent.sleep(0)
      opening = [c for c in conns if c._state == IDLE and c.open_ar is not None and not c.open_ar.ready()]
      if not r_['g'].dead and opening and not r_['deliveries']:
        classes.add('requester-abandoned-while-opening')
        r_['g'].kill(block=False)
        gevent.sleep(0)
    if open_delay and not use_pool_open and rng.random() < 0.3:
      abandon_first_requester()
    burst = [issue() for _ in range(first_burst)]    # concurrent first requests
    if first_burst > 1:
      classes.add('concurrent-first-requests')
    env.settle()
    inv()
    for _ in range(nops):
      k = rng.random()
      if k < 0.4:
        for _i in range(rng.choice([1, 1, 3])):
          issue()
      elif k < 0.65:
        c = next((c for c in conns if c.inflight), None)
        if c:
          r = c.inflight.pop(rng.randrange(len(c.inflight)))
          r['stack'].AsyncProcessResponseMessage(MethodReturnMessage(return_value=r['id']))
      elif k < 0.72 and use_pool_open and not any(c._state == IDLE and c.open_ar is not None and not c.open_ar.ready()
                                                  for c in conns):
        # the holder closes the pool and it is re-opened / used again while the close is in flight
        classes.add('close-then-reopen')
        gevent.spawn(pool.Close)
        env.advance(rng.choice([0.0, 0.0, close_delay / 2]))
        pool.Open()
        if rng.random() < 0.5:
          issue()
      elif k < 0.76:
        # the healthy connection reports Busy for a while (e.g. a transport that is re-establishing
        # its socket): still the pool's one connection, requests during the window share it
        lv = [c for c in conns if not c.failed and c._state == OPEN]
        if lv:
          classes.add('busy-window')
          c_ = lv[0]
          c_._state = BUSY
          for _i in range(rng.choice([1, 2])):
            issue()
          env.settle()
          inv()
          if c_._state == BUSY:
            c_._state = OPEN
      elif k < 0.78 and open_delay and not live():
        abandon_first_requester()
        if rng.random() < 0.6:
          issue()
      elif k < 0.8:
        lv = [c for c in conns if not c.failed and c._state != CLOSED]
        if lv:
          lv[0].fail('connection lost')
          classes.add('failure:' + ('busy' if lv[0].inflight else 'opening' if lv[0]._state == IDLE else 'idle'))
      else:
        env.advance(rng.choice([0.01, 0.2, 0.8]) * rng.random())
      env.settle()
      inv()
    env.advance(1.5)
    inv()
    # sharing: all requests of the first burst went to one connection (unless it failed meanwhile)
    out.obligations += 1
    firsts = set(r['conn'].id for r in burst if r['conn'] is not None)
    if len(firsts) > 1 and not any(conns[i].failed for i in firsts):
      out.violate('singleton:not-shared', 'concurrent first requests used connections %r' % sorted(firsts), {})
    # replacement: a request issued when no live connection existed got a fresh one
    for r in reqs:
      if r['conn'] is not None and not r['live_before'] and conns and r['conn'].id < len(conns):
        older_failed = [c for c in conns if c.id < r['conn'].id and c.failed]
        if older_failed:
          classes.add('replaced-after-failure')
    # every open attempt happened once per connection
    for c in conns:
      out.obligations += 1
      if c.open_started > 1:
        out.violate('singleton:opened-twice', 'connection %d was opened %d times' % (c.id, c.open_started), {})
    for r in reqs:
      if len(r['deliveries']) > 1:
        out.violate('singleton:double-completion', 'request %d completed %d times' % (r['id'], len(r['deliveries'])), {})
    for _ in range(extra_holders):
      live_before_holder_close = bool(live())
      pool.Close()
      env.settle()
      out.obligations += 1
      if reqs and not live() and not any(c.failed for c in conns[-1:]) and conns and 'close-then-reopen' not in classes \
          and live_before_holder_close:
        out.violate('singleton:closed-under-a-holder', 'the connection was closed although %d holder(s) had not closed the '
                    'pool yet' % 1, {})
        break
    pool.Close()
    env.advance(0.2)
    out.obligations += 1
    if live():
      out.violate('singleton:leaked-after-close', 'connections %r are still live after the last holder closed the pool%s' % (
        [c.id for c in live()], '' if use_pool_open else ' (a pool that was used without being opened first)'), {'lazy': not use_pool_open})
    elif rng.random() < 0.3:
      # a straggler: one more request after the last holder has closed the pool makes it connect again
      # (still one connection at a time), and the owner's Close() during shutdown closes that one too
      classes.add('request-after-last-close')
      issue()
      env.settle()
      for _ in range(50):
        if not any(c._state == IDLE and c.open_ar is not None and not c.open_ar.ready() for c in conns):
          break
        env.advance(0.1)      # (closing a pool whose connection is still being made is not part of this history)
      inv()
      pool.Close()
      env.advance(0.2)
      out.obligations += 1
      if live():
        out.violate('singleton:leaked-after-close', 'connections %r, made for a request that arrived after the last Close(), '
                    'are still live after the pool was closed again' % ([c.id for c in live()],), {'straggler': True})
    out.classes = sorted(classes)
    out.nontrivial = len(reqs) >= 3
    out.extra = {'connections': len(conns), 'requests': len(reqs)}
    out.sig = ('singleton', open_delay, fail_open_p, first_burst, sorted(c for c in classes if ':' in c), nops, min(len(conns), 6))
    if idx % 60 == 0:
      out.sample = {'kind': 'singleton', 'connections': len(conns), 'requests': len(reqs), 'classes': sorted(classes),
                    'events_tail': [dict((k, v) for k, v in e.items() if k != 'seq') for e in env.events[-8:]]}

  # ------------------------------------------------------------------ refcount
  def _refcount(self, env, rng, idx, out):
    import gevent
    from scales.asynchronous import AsyncResult
    from scales.sink import ClientMessageSink, RefCountedSink
    classes = set(out.classes)
    log = []

    class Under(ClientMessageSink):
      def __init__(self):
        super(Under, self).__init__()
        self.state_ = IDLE

      @property
      def state(self):
        return self.state_

      def Open(self):
        if open_raises[0]:
          # the connection cannot even be attempted (no file descriptors, bad address family, ...)
          raise OSError(24, 'Too many open files')
        ar = AsyncResult()
        log.append(('open', ar))
        marks.append('open')
        if rng.random() < 0.7:
          ar.set(True)
        return ar

      def Close(self):
        log.append(('close', None))
        how = close_behaviour[0]
        close_behaviour[0] = None
        if how == 'yield':
          # tearing the connection down does cooperative work: other greenlets run meanwhile
          marks.append('close-begin')
          gevent.sleep(0)
          gevent.sleep(0)
          marks.append('close-end')
        elif how == 'reenter':
          # tearing the connection down fails a pending request whose handler closes its client
          # again: a surplus Close() of the shared sink from inside the last Close()
          classes.add('surplus-close-from-inside-close')
          rc.Close()
        elif how == 'raise':
          classes.add('underlying-close-raises')
          raise OSError(107, 'Transport endpoint is not connected')

      def AsyncProcessRequest(self, *a):
        pass

      def AsyncProcessResponse(self, *a):
        pass
    close_behaviour = [None]
    open_raises = [False]
    marks = []
    under = Under()
    rc = RefCountedSink(under)
    holders = rng.randint(1, 6)
    count = 0
    current_ar = None
    nops = rng.choice([5, 20, 60, 150])
    for step in range(nops):
      opens_before = sum(1 for e in log if e[0] == 'open')
      closes_before = sum(1 for e in log if e[0] == 'close')
      if rng.random() < 0.15:
        # the underlying sink's state moves on its own (opening, busy, faulted, back up): sharing
        # and reference counting do not depend on it
        under.state_ = rng.choice([IDLE, OPEN, BUSY, CLOSED, CLOSED])
        classes.add('underlying-state-changes')
        if under.state_ == CLOSED and count > 0:
          classes.add('underlying-closed-while-held')
      if rng.random() < 0.25:
        # an open of the underlying sink that was still in flight completes now, successfully or not:
        # who holds the shared sink does not change
        pend = [e[1] for e in log if e[0] == 'open' and not e[1].ready()]
        if pend:
          ar_ = rng.choice(pend)
          if rng.random() < 0.5:
            ar_.set(True)
          else:
            classes.add('underlying-open-fails-later')
            ar_.set_exception(Exception('connect failed'))
          env.settle()
      if count == 0 and rng.random() < 0.08:
        # the underlying Open() raises for a first holder; another holder opens the shared sink; the
        # first one releases what it tried to take (the usual clean-up); then the other one closes
        classes.add('underlying-open-raises')
        open_raises[0] = True
        try:
          rc.Open()
        except OSError:
          pass
        open_raises[0] = False
        rc.Open()
        c0_ = sum(1 for e in log if e[0] == 'close')
        try:
          rc.Close()
        except OSError:
          pass
        out.obligations += 2
        c1_ = sum(1 for e in log if e[0] == 'close')
        if c1_ != c0_:
          out.violate('refcount:early-close', 'the clean-up Close() of a holder whose Open() had raised closed the underlying '
                      'sink under the holder that opened after it', {'after_open_raised': True})
        try:
          rc.Close()
        except OSError:
          pass
        c2_ = sum(1 for e in log if e[0] == 'close')
        if c2_ - c0_ != 1:
          out.violate('refcount:last-close', 'after an Open() that raised, one further Open() and two Close() calls the underlying '
                      'sink was closed %d times' % (c2_ - c0_), {'after_open_raised': True})
        current_ar = None
        continue
      if rng.random() < 0.5 and count < holders * 2:
        got = rc.Open()
        opens = sum(1 for e in log if e[0] == 'open') - opens_before
        out.obligations += 2
        if count == 0:
          if closes_before:
            classes.add('reopen-after-last-close')
          if opens != 1:
            out.violate('refcount:first-open', 'first Open made %d underlying Open calls' % opens, {})
          else:
            current_ar = log[-1][1]
        elif opens != 0:
          out.violate('refcount:extra-open', 'Open #%d made %d underlying Open calls' % (count + 1, opens), {})
        if got is not current_ar:
          out.violate('refcount:open-result', 'holder got a different open result than the first holder', {})
        count += 1
      else:
        newcomer = None
        if count == 1 and rng.random() < 0.3:
          close_behaviour[0] = rng.choice(['reenter', 'raise', 'yield'])
          if close_behaviour[0] == 'yield':
            # ... and a new holder opens the shared sink in the very instant the last one closes it
            classes.add('open-during-yielding-last-close')
            del marks[:]
            newcomer = gevent.spawn(rc.Open)
        try:
          rc.Close()
        except OSError:
          pass        # the underlying Close() error reaches the closing holder; the sink is closed all the same
        close_behaviour[0] = None
        if newcomer is not None:
          newcomer.join(timeout=2)
          env.settle()
          out.obligations += 2
          if marks != ['close-begin', 'close-end', 'open']:
            out.violate('refcount:open-during-close', 'a holder opened the shared sink while the last holder\'s Close() was tearing the '
                        'underlying sink down: underlying events %r (expected the close to finish, then a fresh open)' % (marks,), {})
          elif not newcomer.successful() or newcomer.value is not log[-1][1]:
            out.violate('refcount:open-result', 'the holder that opened during the last Close() got %r' % (
              newcomer.exception or newcomer.value,), {})
        closes = sum(1 for e in log if e[0] == 'close') - closes_before
        out.obligations += 1
        if count == 0:
          classes.add('surplus-close')
          if closes != 0:
            out.violate('refcount:surplus-close', 'surplus Close reached the underlying sink', {})
        elif count == 1:
          if closes != 1:
            out.violate('refcount:last-close', 'last Close made %d underlying Close calls' % closes, {})
          count = 0
          current_ar = None
          if newcomer is not None:
            count = 1
            current_ar = [e[1] for e in log if e[0] == 'open'][-1]
        else:
          if closes != 0:
            out.violate('refcount:early-close', 'Close with %d holders left closed the underlying sink' % (count - 1), {})
          count -= 1
      if len(out.violations) > 4:
        break
    out.classes = sorted(classes)
    out.nontrivial = nops >= 3
    out.sig = ('refcount', holders, nops, sorted(classes))
    out.extra = {'refcount_ops': nops}

  # ------------------------------------------------------------------ shared
  def _shared(self, env, rng, idx, out):
    import gc
    from scales.sink import ClientMessageSink, SharedSinkProvider
    classes = set(out.classes)
    created = []

    class Under(ClientMessageSink):
      def __init__(self, props):
        super(Under, self).__init__()
        self.props = props
        self.state_ = OPEN
        created.append(props['key'])

      @property
      def state(self):
        return self.state_

      def Open(self):
        from scales.asynchronous import AsyncResult
        ar_ = AsyncResult()
        ar_.set(True)
        return ar_

      def Close(self):
        pass

      def AsyncProcessRequest(self, *a):
        pass

      def AsyncProcessResponse(self, *a):
        pass

    class Next(object):
      sink_class = Under

      def CreateSink(self, props):
        return Under(props)
    sp = SharedSinkProvider(lambda p: p['key'])
    sp.next_provider = Next()
    keys = ['a', 'b', ('h', 1, 'lbl'), ('h', 2, 'lbl'), None][:rng.randint(2, 5)]
    if idx % 3 == 2:
      # the sharing key the Kafka builder uses: one connection per broker address and label, whichever of the
      # broker's partitions a balancer member stands for
      from scales.kafka.builder import Kafka
      from scales.kafka.sink import KafkaEndpoint
      classes.add('shared:kafka-broker-key')
      ksp = SharedSinkProvider(Kafka._get_sink_key)
      ksp.next_provider = Next()
      b1 = [ksp.CreateSink({'endpoint': KafkaEndpoint('kb1', 9092, part_), 'label': 'kafka', 'key': 'kb1'})
            for part_ in rng.sample(range(12), rng.randint(2, 4))]
      other = ksp.CreateSink({'endpoint': KafkaEndpoint(rng.choice(['kb2', 'kb1']), 9093, 0), 'label': 'kafka', 'key': 'kb2'})
      relabel = ksp.CreateSink({'endpoint': KafkaEndpoint('kb1', 9092, 0), 'label': 'kafka-bootstrap', 'key': 'kb1b'})
      out.obligations += 2
      if any(s_ is not b1[0] for s_ in b1):
        out.violate('shared:same-key-different-sink', 'members standing for %d partitions of one Kafka broker (same address, same '
                    'label) got %d different shared sinks' % (len(b1), len(set(map(id, b1)))), {'kafka_key': True})
      if other is b1[0] or relabel is b1[0]:
        out.violate('shared:different-key-same-sink', 'another broker address, or another label, shares the sink of kb1:9092/kafka',
                    {'kafka_key': True})
    held = {}     # key -> list of strong refs
    opened_by = {}
    nops = rng.choice([5, 20, 60])
    concurrent = (idx // 3) % 2 == 1
    if concurrent and env is not None:
      # several holders ask at the same instant, and every log call in between is a scheduling point
      env.yielding_logs()
    for _ in range(nops):
      k = rng.choice(keys)
      if concurrent and k is not None and rng.random() < 0.3:
        import gevent
        classes.add('concurrent-holders')
        n_before = created.count(k)
        gs = [gevent.spawn(sp.CreateSink, {'key': k}) for _i in range(rng.randint(2, 4))]
        gevent.joinall(gs, timeout=5)
        got = [g.value for g in gs if g.successful()]
        out.obligations += 1
        if len(got) != len(gs):
          out.violate('shared:create-failed', 'concurrent CreateSink for key %r: %d of %d calls failed or hung (%r)' % (
            k, len(gs) - len(got), len(gs), [g.exception for g in gs if not g.successful()][:1]), {})
        ref = held[k][0] if held.get(k) else (got[0] if got else None)
        if any(s_ is not ref for s_ in got):
          out.violate('shared:same-key-different-sink', '%d holders asking for key %r at the same instant got %d '
                      'different sinks (%d underlying sinks were created)' % (
                        len(gs), k, len(set(map(id, got + [ref]))), created.count(k) - n_before), {'concurrent': True})
        held.setdefault(k, []).extend(got)
        continue
      if rng.random() < 0.65:
        s = sp.CreateSink({'key': k})
        out.obligations += 1
        if k is None:
          classes.add('no-key')
          if any(s is o for lst in held.values() for o in lst):
            out.violate('shared:none-key-shared', 'sinks without a key were shared', {})
          held.setdefault(k, []).append(s)
          continue
        if held.get(k):
          classes.add('same-key')
          if s is not held[k][0]:
            out.violate('shared:same-key-different-sink', 'key %r yielded a second sink while a holder of the '
                        'first is alive' % (k,), {})
        for k2, lst in held.items():
          if k2 != k and k2 is not None and lst:
            classes.add('different-key')
            if s is lst[0]:
              out.violate('shared:different-key-same-sink', 'keys %r and %r share one sink' % (k, k2), {})
        held.setdefault(k, []).append(s)
      elif held.get(k) and rng.random() < 0.35 and k is not None:
        # holders open and close the sink they hold (and keep holding it): with every holder closed the
        # open count is zero, but the key still maps to the sink they all hold
        classes.add('holders-open-and-close')
        s_ = held[k][0]
        n_open = opened_by.get(k, 0)
        if n_open and rng.random() < 0.6:
          s_.Close()
          opened_by[k] = n_open - 1
          if n_open == 1:
            classes.add('open-count-zero-while-held')
        else:
          s_.Open()
          opened_by[k] = n_open + 1
      elif held.get(k) and rng.random() < 0.3 and k is not None:
        # the shared connection dies while holders are alive: the key must still map to it
        held[k][0].next_sink.state_ = CLOSED
        classes.add('underlying-closed-while-held')
      elif held.get(k):
        held[k].pop()
        if not held[k]:
          classes.add('all-holders-gone')
          opened_by.pop(k, None)
          gc.collect()
    out.classes = sorted(classes)
    out.nontrivial = nops >= 3
    out.sig = ('shared', len(keys), nops, sorted(classes))
    out.extra = {'shared_ops': nops}


CHECK = C16()
