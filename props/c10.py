"""C10 - timer queue: each action once, never early, in deadline order; cancel
is local.  Fresh TimerQueue instances on the virtual loop, several producer
greenlets scheduling/cancelling at arbitrary (and grid-aligned) instants."""
from fractions import Fraction
import math

from vlib.framework import BaseCheck, CaseResult

EPS = 2e-6   # ~8 ulp of a double near 1.7e9 s


def _ceil_frac(x):
  return -((-x.numerator) // x.denominator)


def rounded_bounds(T, res):
  """(lo, hi): rounded deadline computed in exact rationals for T-EPS and
  T+EPS.  lo == hi unless T is within EPS of a grid point (ambiguous)."""
  if not res:
    return T, T
  r = Fraction(str(res))
  if math.frexp(res)[0] == 0.5 and Fraction(T) % Fraction(res) == 0:
    # the resolution is a power of two and T is an exact multiple of it: the division is exact in
    # floating point too, nothing is ambiguous, the deadline is its own rounded deadline
    return T, T
  lo = _ceil_frac(Fraction(T - EPS) / r) * r
  hi = _ceil_frac(Fraction(T + EPS) / r) * r
  return float(lo), float(hi)


def judge(actions, end_vt, res, out, crit_logs=0):
  """actions: list of dicts with T, sched_vt, sched_seq, cancel_vt, cancel_seq,
  runs=[(vt, seq)].  Appends violations to ``out`` (a CaseResult)."""
  ran = []
  for a in actions:
    lo, hi = rounded_bounds(a['T'], res)
    a['R_lo'], a['R_hi'] = lo, hi
    runs = a['runs']
    out.obligations += 1
    if len(runs) > 1:
      out.violate('ran-twice', 'action %d ran %d times' % (a['id'], len(runs)),
                  {'res': res}, a)
      continue
    cancelled_early = a['cancel_vt'] is not None and a['cancel_vt'] < lo - EPS
    if cancelled_early:
      out.obligations += 1
      if runs:
        out.violate('cancelled-ran',
                    'action %d cancelled at %.6f (rounded deadline %.6f) ran at %.6f' % (
                      a['id'], a['cancel_vt'], lo, runs[0][0]),
                    {'res': res}, a)
      continue
    if a['cancel_vt'] is not None:
      # cancelled at/after its rounded deadline: may or may not have run
      if runs:
        out.obligations += 1
        if runs[0][0] < a['T'] - EPS:
          out.violate('early', 'action %d ran %.6fs before its deadline' % (
            a['id'], a['T'] - runs[0][0]), {'res': res}, a)
      continue
    # not cancelled: exactly once, within [T, max(R, sched)]
    out.obligations += 2
    if not runs:
      if end_vt >= max(hi, a['sched_vt']) + EPS:
        out.violate('never-ran', 'action %d (T=%.6f, R=%.6f) never ran by %.6f' % (
          a['id'], a['T'], hi, end_vt), {'res': res}, a)
      continue
    vt = runs[0][0]
    if vt < a['T'] - EPS:
      out.violate('early', 'action %d ran at %.6f, %.6fs before its deadline %.6f' % (
        a['id'], vt, a['T'] - vt, a['T']), {'res': res}, a)
    if vt > max(hi, a['sched_vt']) + EPS:
      out.violate('late', 'action %d ran at %.6f, %.6fs after max(rounded deadline %.6f, '
                  'schedule time %.6f)' % (a['id'], vt, vt - max(hi, a['sched_vt']), hi,
                                           a['sched_vt']), {'res': res}, a)
    if lo == hi:
      ran.append(a)
  # ordering among unambiguous, non-cancelled actions that both were pending
  ran.sort(key=lambda a: a['runs'][0][1])
  n = len(ran)
  for i in range(n):
    x = ran[i]
    xkey = (x['R_lo'], x['sched_seq'])
    xrun = x['runs'][0][1]
    for j in range(i + 1, n):
      y = ran[j]
      # y counts as pending together with x only if that is certain at the
      # boundary: scheduled at an earlier virtual instant than x ran (x is
      # dequeued in the instant it runs), or in the same non-yielding slice of
      # one producer.  (An action is dequeued slightly before it starts, so a
      # same-instant Schedule from another slice may legitimately come after
      # the dequeue.)
      if y['sched_seq'] < xrun and (y['sched_vt'] < x['runs'][0][0] - 1e-9
                                    or y.get('slice') == x.get('slice')):
        out.obligations += 1
        if (y['R_lo'], y['sched_seq']) < xkey:
          out.violate('order',
                      'action %d (R=%.6f, sched#%d) ran before action %d (R=%.6f, sched#%d) '
                      'although both were pending' % (x['id'], x['R_lo'], x['sched_seq'],
                                                      y['id'], y['R_lo'], y['sched_seq']),
                      {'res': res}, {'first': x, 'second': y})
          return


class C10(BaseCheck):
  ID = 'C10'
  RULE = ('case = fresh TimerQueue (every 6th case: its schedule counter set just below 2^16 / 2^31 / 2^32 / 2^63, as after that many earlier actions) (resolution r in {0.01,0.1,0.25,0.5,1,0,None}; with the power-of-two resolutions some deadlines lie exactly on a tick) driven by 1-4 '
          'producer greenlets issuing Schedule/cancel/sleep ops at seeded virtual instants '
          '(incl. grid-aligned boundary class, past deadlines, deadlines minutes ahead with long quiet stretches, '
          'ties, cancel of head / of run '
          'action / twice); non-trivial = at least one action ran and one race class was hit; '
          'distinct by (r, set of race classes, size bucket, boundary?). Each worker additionally runs one short '
          'real-clock anchor on gevent\'s real libev loop (once / not early / cancelled-in-time never runs; lateness '
          'not judged)')
  ANCHORS = ('scales.timer_queue:TimerQueue._TimerWorker',
             'scales.timer_queue:TimerQueue.Schedule')
  REQUIRED_ANCHORS = ANCHORS
  REQUIRED_CLASSES = ('new-head-while-sleeping', 'past-deadline', 'tie', 'cancel-head',
                      'boundary', 'far-deadlines', 'deadline-exactly-on-tick', 'action-raises', 'action-blocks', 'long-schedule-history', 'many-actions-still-running', 'queue-clock-differs-from-wall-clock', 'falsy-callable-action', 'resolution:unusual')
  ASSUMPTIONS = ('virtual clock: no timer lateness is injected (J=0), so lateness bounds are exact',
                 'rounded deadline computed in exact rationals; actions within 2us of a grid '
                 'point are exempt from the ordering clause only')
  QUICK_CASES = 2400
  THOROUGH_CASES = 200000
  QUICK_WALL = 180
  THOROUGH_WALL = 1800
  MIN_DISTINCT = 10

  def canaries(self, env):
    errs = []
    ok = CaseResult()
    judge([dict(id=1, T=100.004, sched_vt=99.0, sched_seq=1, cancel_vt=None, cancel_seq=None,
                runs=[(100.01, 5)])], 200.0, 0.01, ok)
    if ok.violations:
      errs.append('C10 oracle flags a correct history: %r' % ok.violations)
    for bad, kind in (
        ([dict(id=1, T=100.004, sched_vt=99.0, sched_seq=1, cancel_vt=None, cancel_seq=None,
               runs=[(100.0, 5)])], 'early'),
        ([dict(id=1, T=100.004, sched_vt=99.0, sched_seq=1, cancel_vt=None, cancel_seq=None,
               runs=[(100.02, 5)])], 'late'),
        ([dict(id=1, T=100.004, sched_vt=99.0, sched_seq=1, cancel_vt=99.5, cancel_seq=2,
               runs=[(100.01, 5)])], 'cancelled-ran'),
        ([dict(id=1, T=100.004, sched_vt=99.0, sched_seq=1, cancel_vt=None, cancel_seq=None,
               runs=[])], 'never-ran'),
        ([dict(id=1, T=100.004, sched_vt=99.0, sched_seq=1, cancel_vt=None, cancel_seq=None,
               runs=[(100.01, 5), (100.01, 6)])], 'ran-twice'),
        ([dict(id=1, T=100.024, sched_vt=99.0, sched_seq=1, cancel_vt=None, cancel_seq=None,
               runs=[(100.03, 5)]),
          dict(id=2, T=100.014, sched_vt=99.0, sched_seq=2, cancel_vt=None, cancel_seq=None,
               runs=[(100.03, 6)])], 'order')):
      r = CaseResult()
      judge(bad, 200.0, 0.01, r)
      if not any(v['kind'] == kind for v in r.violations):
        errs.append('C10 oracle misses a %s history' % kind)
    return errs

  def finish(self, env, tier):
    """Real-clock anchor: one short run per worker on gevent's real libev loop (separate
    process, no virtual time).  Judged: at most once, exactly once unless cancelled, never
    early, cancelled-in-time never runs.  Lateness is only reported."""
    import json, os, subprocess
    tool = os.path.join(os.path.dirname(os.path.dirname(os.path.abspath(__file__))), 'tools', 'realclock_timerqueue.py')
    try:
      r = subprocess.run(['/venv/bin/python', tool, str(os.getpid() % 100000)], capture_output=True, text=True,
                         timeout=60, env=dict(os.environ))
      d = json.loads(r.stdout.strip().splitlines()[-1])
    except Exception as e:  # noqa: the anchor is auxiliary; its failure to run is not a verdict
      return {'real_clock_runs_failed': 1}
    res = {'real_clock_runs': 1, 'real_clock_actions': d['actions'], 'real_clock_actions_run': d['ran']}
    bad = {k: d[k] for k in ('twice', 'early', 'never', 'cancelled_ran') if d[k]}
    if bad:
      res['__violations__'] = [{'kind': 'real-clock:' + '+'.join(sorted(bad)), 'facts': {'res': d['resolution']},
                                'msg': 'on the real clock/libev loop: %r (seed %d)' % (bad, d['seed']), 'witness': d}]
    return res

  def run_case(self, env, rng, idx, tier):
    import gevent
    from scales.timer_queue import TimerQueue
    res = rng.choice([0.01, 0.01, 0.01, 0.1, 1, None, 0, 0.25, 0.5])
    if idx % 8 == 5:
      # resolutions that are no whole fraction of a second, and coarse ones: the grid is the multiples of the
      # resolution itself
      res = rng.choice([0.3, 0.03, 0.4, 2, 1.5, 0.7, 5])
    reff = res or 0.01
    # the queue's own clock: in some cases it is not the wall clock (an offset clock, a clock in another epoch);
    # every instant below is read from it
    off = rng.choice([-0.4, 0.4, -37.0, 3600.5, -86400.0]) if idx % 5 == 1 else 0.0
    qnow = (lambda: env.clock.time() + off) if off else env.clock.time
    q = TimerQueue(time_source=qnow, resolution=res)
    if idx % 6 == 4 and hasattr(q, '_seq'):
      # a queue with a history: it has scheduled (and run) almost 2^16 / 2^31 / 2^32 / 2^63 actions before
      q._seq = rng.choice([2 ** 16, 2 ** 31, 2 ** 32, 2 ** 63]) - rng.randint(1, 12)
      self._long_history = True
    else:
      self._long_history = False
    boundary = rng.random() < 0.3
    # far deadlines: minutes ahead, with long quiet stretches in which nothing wakes the worker
    far = rng.random() < 0.2
    far_scale = rng.choice([70.0, 400.0]) / (50 * reff) if far else 1.0
    nprod = rng.randint(1, 4)
    big = 500 if tier == 'thorough' else 200
    nops = rng.choice([4, 10, 30, 80, big])
    actions = []
    handles = []
    races = set()
    if far:
      races.add('far-deadlines')
    if boundary:
      races.add('boundary')
      # start the whole case on a grid point
      g = math.ceil(qnow() / reff) * reff
      env.run_until(g - off)

    misbehave = rng.random() < 0.3     # in these cases some actions raise or block after starting

    class ActionBoom(Exception):
      pass

    def make_action(a):
      how = rng.choice(['raise', 'block', None, None]) if misbehave else None

      def act():
        a['runs'].append((qnow(), env.emit('timer.run', aid=a['id'])['seq']))
        if how == 'raise':
          races.add('action-raises')
          raise ActionBoom('action %d' % a['id'])
        if how == 'block':
          races.add('action-blocks')
          gevent.sleep(rng.choice([0.3, 2.0]) * reff * 10)
      if rng.random() < 0.08:
        # an action that is a callable object which is false in a boolean context (an empty list of
        # listeners that can be called, a flag-like object): an action like any other
        races.add('falsy-callable-action')
        if rng.random() < 0.5:
          class _Listeners(list):
            def __call__(self):
              return act()
          return _Listeners()

        class _Flag(object):
          def __bool__(self):
            return False

          def __call__(self):
            return act()
        return _Flag()
      return act

    def head_deadline():
      live = [e for e in q._queue if not e[2]]
      return min(e[0] for e in live) if live else None

    slices = [0]

    def producer(pi, n):
      slices[0] += 1
      for _ in range(n):
        op = rng.random()
        if op < 0.5 or not handles:
          kind = rng.random()
          if kind < 0.12:
            delta = -rng.random() * 3 * reff
            races.add('past-deadline')
          elif kind < 0.2:
            delta = 0.0
          elif kind < 0.45:
            delta = rng.random() * reff
          elif kind < 0.6 and actions:
            # tie with an existing pending action
            other = rng.choice(actions)
            delta = other['T'] - qnow()
          else:
            delta = rng.random() * rng.choice([2, 10, 50]) * reff * far_scale
          if boundary and rng.random() < 0.7:
            delta = round(delta / reff) * reff
          T = qnow() + delta
          if boundary and res in (0.25, 0.5, 1) and rng.random() < 0.7:
            # a deadline that lies exactly on a tick of the resolution (whole seconds on the 1 s
            # queue): it is its own rounded deadline
            T = math.floor(qnow()) + round((T - math.floor(qnow())) / res) * res
            races.add('deadline-exactly-on-tick')
          hd = head_deadline()
          a = dict(id=len(actions) + 1, T=T, sched_vt=qnow(), cancel_vt=None,
                   cancel_seq=None, runs=[], prod=pi, slice=slices[0])
          lo, hi = rounded_bounds(T, res)
          if hd is not None and hi < hd - EPS and hd > qnow():
            races.add('new-head-while-sleeping')
          for o in actions:
            if not o['runs'] and o['cancel_vt'] is None and abs(o.get('R_hi0', 1e99) - hi) < EPS:
              races.add('tie')
              break
          a['R_hi0'] = hi
          a['sched_seq'] = env.emit('timer.schedule', aid=a['id'], T=T)['seq']
          actions.append(a)
          handles.append((a, q.Schedule(T, make_action(a))))
        elif op < 0.75:
          a, cancel = rng.choice(handles)
          if a['cancel_vt'] is None:
            if a['runs']:
              races.add('cancel-after-run')
            else:
              hd = head_deadline()
              if hd is not None and abs(hd - a['R_hi0']) < EPS:
                races.add('cancel-head')
            a['cancel_vt'] = qnow()
            a['cancel_seq'] = env.emit('timer.cancel', aid=a['id'])['seq']
          else:
            races.add('double-cancel')
          cancel()
        else:
          k = rng.random()
          slices[0] += 1
          if k < 0.3:
            gevent.sleep(0)
          elif k < 0.5 or boundary:
            gevent.sleep(rng.randint(0, 4) * reff)
          else:
            gevent.sleep(rng.random() * rng.choice([0.5, 3, 12]) * reff * far_scale)
          slices[0] += 1

    if idx % 24 == 13:
      # many actions that have started and not finished yet (each of them waits for something): the
      # actions that come due afterwards are nobody's business but the queue's
      races.add('many-actions-still-running')
      T0 = qnow() + reff
      for _i in range(rng.choice([130, 200])):
        a = dict(id=len(actions) + 1, T=T0, sched_vt=qnow(), cancel_vt=None, cancel_seq=None, runs=[], prod=-1, slice=0)
        lo, hi = rounded_bounds(T0, res)
        a['R_hi0'] = hi
        a['sched_seq'] = env.emit('timer.schedule', aid=a['id'], T=T0)['seq']
        actions.append(a)

        def act(a=a):
          a['runs'].append((qnow(), env.emit('timer.run', aid=a['id'])['seq']))
          gevent.sleep(400 * reff * far_scale + 5.0)
        handles.append((a, q.Schedule(T0, act)))
    per = max(1, nops // nprod)
    gs = [gevent.spawn(producer, i, per) for i in range(nprod)]
    gevent.joinall(gs)
    last = max([a['R_hi0'] for a in actions] + [qnow()])
    env.run_until(last - off + 3 * reff + 0.5)
    end_vt = qnow()
    q._worker.kill(block=False)
    env.settle()

    out = CaseResult()
    crit = [l for l in env.logs if 'seq != peeked_seq' in l[2]]
    judge(actions, end_vt, res, out)
    for e in env.errors:
      if e['type'] == 'ActionBoom':
        continue       # an action's own exception, raised on purpose: it concerns nobody else
      out.violate('greenlet-error', 'unhandled exception in timer queue greenlet: %s: %s' % (
        e['type'], e['value']), {'res': res}, e)
    nrun = sum(1 for a in actions if a['runs'])
    out.nontrivial = nrun > 0 and bool(races)
    out.classes = sorted(races | ({'long-schedule-history'} if self._long_history else set())
                         | ({'queue-clock-differs-from-wall-clock'} if off else set())
                         | ({'resolution:unusual'} if res in (0.3, 0.03, 0.4, 2, 1.5, 0.7, 5) else set()))
    out.extra = {'actions': len(actions), 'actions_run': nrun,
                 'cancels': sum(1 for a in actions if a['cancel_vt'] is not None),
                 'diag_seq_ne_peeked_logs': len(crit)}
    out.sig = (str(res), sorted(races), len(actions) // 20, nprod)
    if idx % 97 == 0:
      out.sample = {'resolution': res, 'producers': nprod, 'races': sorted(races),
                    'history': [dict(id=a['id'], T=round(a['T'], 6), sched=round(a['sched_vt'], 6),
                                     cancel=a['cancel_vt'] and round(a['cancel_vt'], 6),
                                     ran=[round(r[0], 6) for r in a['runs']])
                                for a in actions[:12]]}
    return out


CHECK = C10()
