"""C15 - Kafka produce requests and responses are well-formed for every input."""
import io

from vlib.framework import BaseCheck, CaseResult


class _Sock(object):
  host, port = 'broker', 9092

  def isOpen(self):
    return False


def gen_bytes(rng, n):
  if n <= 64:
    return bytes(rng.getrandbits(8) for _ in range(n))
  chunk = bytes(rng.getrandbits(8) for _ in range(64))
  return (chunk * (n // 64 + 1))[:n]


class C15(BaseCheck):
  ID = 'C15'
  RULE = ('case = 8 produce requests built by the real KafkaProtocol + KafkaTransportSink._BuildHeader '
          '(topic bytes incl. empty/long/non-ASCII bytes, partition ids incl. 0/2^31-1, acks in '
          '{-1,0,1}, payload lists incl. [] / empty payload / 1 MiB / arbitrary bytes, correlation ids '
          'over the tag range, stock client id or a transport subclass with a shorter / longer / empty / non-ASCII CLIENT_ID) parsed by the independent v0 parser (sizes, CRC32, magic, null key), '
          'plus 6 produce and 4 metadata responses built by the independent encoder and decoded by '
          'the real deserializer, plus (sim) concurrent produce calls through the real serializer+'
          'transport sinks against a simulated broker that answers out of order, in half of the cases with '
          'deadlines that expire while requests are in transit and new calls issued before the late '
          'answers arrive, in a third of the cases with the calls issued while the broker connection is still '
          'being established (correlation-id routing), in 30% over a socket whose send() accepts 1-64 bytes at a time and in 25% with the transport over a plain ScalesSocket (its own read/write loops); in 30% of the cases also a complete Kafka client from the public builder (metadata bootstrap, router sink, per-topic balancer) whose Puts the broker answers with seeded error codes, including codes the library has no name for: each caller gets its own offset or a KafkaError with the broker\'s code. non-trivial = at least one request parsed and one response decoded; distinct by '
          '(payload classes, acks set, response shapes)')
  ANCHORS = ('scales.kafka.protocol:KafkaProtocol._SerializeProduceRequest',
             'scales.kafka.sink:KafkaTransportSink._BuildHeader',
             'scales.kafka.protocol:KafkaProtocol._DeserializeMetadataResponse',
             'scales.kafka.protocol:KafkaProtocol._DeserializeProduceResponse',
             'scales.kafka.sink:KafkaTransportSink._ProcessReply')
  REQUIRED_ANCHORS = ANCHORS
  REQUIRED_CLASSES = ('payloads:none', 'payload:empty', 'payload:large', 'acks:-1', 'acks:0', 'acks:1',
                      'resp:produce', 'resp:metadata', 'routing', 'routing:timeouts', 'routing:timed-out-in-transit',
                      'routing:while-opening', 'routing:short-sends', 'routing:bare-socket', 'routing:segmented-responses', 'full-client', 'full-client:unlisted-error-code', 'custom-client-id', 'reload', 'reload:retried-on-other-partition')
  ASSUMPTIONS = ('topics and payloads are bytes (the only form the Python-3 code path and the '
                 'repository\'s own test use)',)
  QUICK_CASES = 640
  THOROUGH_CASES = 60000
  QUICK_WALL = 180
  THOROUGH_WALL = 1800
  MIN_DISTINCT = 10

  def setup(self, env, tier):
    from scales.kafka.sink import KafkaTransportSink
    self.transport = KafkaTransportSink(_Sock(), 'svc')
    # transports whose client id was customised the only way the library offers (class attribute)
    self.transports = [self.transport]
    for cid in (b'app', b'billing-producer', b'', 'clïent'.encode('utf-8')):
      sub = type('CustomIdTransport', (KafkaTransportSink,), {'CLIENT_ID': cid})
      self.transports.append(sub(_Sock(), 'svc'))

  def run_case(self, env, rng, idx, tier):
    from scales.kafka.protocol import (KafkaProtocol, MessageType, ProduceResponse,
                                       BrokerMetadata, PartitionMetadata)
    from scales.kafka.sink import KafkaEndpoint
    from scales.constants import MessageProperties, TransportHeaders
    from scales.message import MethodCallMessage, MethodReturnMessage
    from vlib import kafkacodec as kc
    out = CaseResult()
    classes = set()
    proto = KafkaProtocol()
    parsed = decoded = 0
    # ------------------------------------------------------------ requests
    for _ in range(8):
      topic = rng.choice([b'loghog', b'', b't', b'a.b-c_d', 'tópic'.encode('utf-8'), b'\xff\x00\x01',
                          b'T' * rng.choice([249, 255, 1000, 32767])])
      pid = rng.choice([0, 1, 7, 2**31 - 1, rng.randint(0, 2**31 - 1)])
      acks = rng.choice([-1, 0, 1])
      classes.add('acks:%d' % acks)
      np_ = rng.choice([0, 1, 1, 2, 5, 40])
      payloads = []
      for _i in range(np_):
        k = rng.random()
        if k < 0.15:
          payloads.append(b'')
          classes.add('payload:empty')
        elif k < 0.22:
          payloads.append(gen_bytes(rng, 1 << 20))
          classes.add('payload:large')
        else:
          payloads.append(gen_bytes(rng, rng.choice([1, 2, 10, 100, 5000])))
      if not payloads:
        classes.add('payloads:none')
      corr = rng.choice([0, 1, 2, 3, 255, 65536, 2**24 - 2, rng.randint(2, 2**24 - 2)])
      use_kwargs = rng.random() < 0.3
      if use_kwargs:
        msg = MethodCallMessage(None, 'Put', (topic,), {'payloads': payloads, 'acks': acks})
      else:
        msg = MethodCallMessage(None, 'Put', (topic, payloads, acks), {})
      msg.properties[MessageProperties.Endpoint] = KafkaEndpoint('broker', 9092, pid)
      buf = io.BytesIO()
      headers = {}
      out.obligations += 1
      facts = {}
      try:
        mtype = proto.SerializeMessage(msg, buf, headers)
        tr_ = self.transport if rng.random() < 0.6 else rng.choice(self.transports)
        if tr_ is not self.transport:
          classes.add('custom-client-id')
        data = tr_._BuildHeader(corr, headers[TransportHeaders.MessageType], buf.tell()) + buf.getvalue()
      except Exception as e:  # noqa
        out.violate('request:build-failed', 'building a produce request raised %s: %s' % (type(e).__name__, e),
                    {'exc': type(e).__name__}, {'topic': topic, 'acks': acks, 'npayloads': np_})
        continue
      try:
        req = kc.parse_request(data)
      except kc.KafkaFormatError as e:
        out.violate('request:malformed', 'independent parser rejects the request: %s' % e, facts,
                    {'topic': topic, 'acks': acks, 'payload_sizes': [len(p) for p in payloads], 'head': data[:80]})
        continue
      parsed += 1
      out.obligations += 5
      if (req['api_key'], req['api_version'], req['correlation_id']) != (0, 0, corr) or mtype != MessageType.ProduceRequest:
        out.violate('request:header', 'header fields %r for correlation id %d' % (
          (req['api_key'], req['api_version'], req['correlation_id']), corr), facts)
      if req['client_id'] != tr_.CLIENT_ID:
        out.violate('request:client-id', 'client id %r on the wire, the transport\'s is %r' % (req['client_id'], tr_.CLIENT_ID),
                    {'custom': tr_ is not self.transport})
      if req['acks'] != acks:
        out.violate('request:acks', 'acks %r, supplied %r' % (req['acks'], acks), facts)
      ok_shape = (len(req['topics']) == 1 and req['topics'][0]['topic'] == topic
                  and len(req['topics'][0]['partitions']) == 1
                  and req['topics'][0]['partitions'][0]['partition'] == pid)
      if not ok_shape:
        out.violate('request:topic-partition', 'decoded topics %r for topic %r partition %d' % (
          [(t['topic'], [p['partition'] for p in t['partitions']]) for t in req['topics']], topic, pid), facts)
      else:
        msgs = req['topics'][0]['partitions'][0]['messages']
        if ([m['value'] for m in msgs] != payloads or any(m['key'] is not None or m['magic'] != 0
                                                          or m['attributes'] != 0 for m in msgs)):
          out.violate('request:messages', 'decoded %d messages differ from %d payloads supplied' % (
            len(msgs), len(payloads)), facts)
    # ------------------------------------------------------------ responses
    shapes = set()
    for _ in range(6):
      classes.add('resp:produce')
      topics = []
      for _t in range(rng.choice([0, 1, 1, 2, 3])):
        tname = rng.choice([b'loghog', b'', 'tópic'.encode('utf-8'), b'x' * 300])
        parts = [(rng.choice([0, 5, 2**31 - 1]), rng.choice([0, -1, 3, 6, 16]),
                  rng.choice([0, -1, 2**62, rng.randint(0, 2**40)])) for _p in range(rng.choice([0, 1, 1, 3]))]
        topics.append((tname, parts))
      shapes.add(('p', len(topics), sum(len(p) for _, p in topics)))
      corr = rng.randint(0, 2**31 - 1)
      body = kc.produce_response_body(topics)
      out.obligations += 1
      try:
        m = proto.DeserializeMessage(io.BytesIO(kc.response(corr, body)[4:]), MessageType.ProduceRequest)
        got = m.return_value
        want = [ProduceResponse(t, p, e, o) for t, parts in topics for p, e, o in parts]
        ok = isinstance(m, MethodReturnMessage) and m.error is None and \
          [tuple(g) for g in got] == [tuple(w) for w in want]
      except Exception as e:  # noqa
        got, ok = repr(e), False
      if ok:
        decoded += 1
      else:
        out.violate('response:produce', 'produce response %r decoded to %r' % (topics, got), {})
    for _ in range(4):
      classes.add('resp:metadata')
      brokers = [(n, rng.choice([b'h', b'ec2-54-159-110-192.compute-1.amazonaws.com', b'']), rng.choice([0, 9092, 65535]))
                 for n in rng.sample(range(0, 50), rng.choice([0, 1, 2, 5]))]
      tnames = rng.sample([b'a', b'loghog', b'', 'tópic'.encode('utf-8'), b'zz'], rng.choice([0, 1, 2, 3]))
      topics = []
      for tn in tnames:
        pids = rng.sample(range(0, 64), rng.choice([0, 1, 2, 4]))
        topics.append((rng.choice([0, 3, 5]), tn,
                       [(rng.choice([0, 5, 9]), p, rng.choice([-1, 0, 1, 49]),
                         [rng.randint(0, 9) for _r in range(rng.choice([0, 1, 3]))],
                         [rng.randint(0, 9) for _r in range(rng.choice([0, 1, 2]))]) for p in pids]))
      shapes.add(('m', len(brokers), len(topics)))
      body = kc.metadata_response_body(brokers, topics)
      out.obligations += 1
      try:
        m = proto.DeserializeMessage(io.BytesIO(kc.response(7, body)[4:]), MessageType.MetadataRequest)
        r = m.return_value
        want_b = {n: BrokerMetadata(n, h, p) for n, h, p in brokers}
        want_t = {tn: {pid: PartitionMetadata(tn, pid, leader, tuple(rep), tuple(isr))
                       for _pe, pid, leader, rep, isr in parts} for _e, tn, parts in topics}
        ok = m.error is None and dict(r.brokers) == want_b and \
          {k: {pk: tuple(pv) for pk, pv in v.items()} for k, v in r.topics.items()} == \
          {k: {pk: tuple(pv) for pk, pv in v.items()} for k, v in want_t.items()}
        got = r
      except Exception as e:  # noqa
        got, ok = repr(e), False
      if ok:
        decoded += 1
      else:
        out.violate('response:metadata', 'metadata response (%r, %r) decoded to %r' % (brokers, topics, got), {})
    # ------------------------------------------------------------ routing over simnet
    self._routing(env, rng, out, classes)
    out.classes = sorted(classes)
    out.nontrivial = parsed > 0 and decoded > 0
    out.extra = {'requests_parsed': parsed, 'responses_decoded': decoded}
    out.sig = (sorted(c for c in classes if c.startswith('pay') or c.startswith('acks')), sorted(shapes)[:6])
    if idx % 40 == 0:
      out.sample = {'classes': sorted(classes), 'last_request_head': data[:60] if parsed else None}
    return out

  def _routing(self, env, rng, out, classes):
    """Concurrent produce calls through the real KafkaSerializerSink ->
    KafkaTransportSink over the simulated network; the broker answers in a
    seeded order; each caller must get the response carrying its own
    correlation id (the broker echoes a per-request unique offset)."""
    try:
      from vlib import simnet
    except ImportError:
      return
    from vlib.kafka_routing import run_routing, run_full_client, run_reload
    run_routing(env, rng, out, classes)
    if rng.random() < 0.3:
      run_full_client(env, rng, out, classes)
    elif rng.random() < 0.25:
      run_reload(env, rng, out, classes)


CHECK = C15()
