"""C08 - transports fail in-flight requests once and report dead connections.

Fault enumeration: (transport, scenario skeleton) x connection ordinal x I/O
operation kind x operation ordinal x fault kind.  The transport under test is
the real class over the real ScalesSocket/VarzSocketWrapper over the simulated
socket, driven through the real timeout + serializer sinks with a harness
terminator at the top of every call's sink stack."""
import itertools

from vlib.framework import BaseCheck, CaseResult

IDLE, OPEN, BUSY, CLOSED = 1, 2, 3, 4
SERIAL_SKELETONS = ['open', 'one', 'two', 'after-timeout', 'chunked', 'timeout-in-write', 'expired-on-arrival',
                    'retry-from-handler', 'request-during-reconnect', 'second-life']
MUX_SKELETONS = ['open', 'one', 'three', 'timed-out+one', 'queued', 'ping', 'silent-inflight', 'requests-while-opening',
                 'retry-from-handler', 'stalled-peer', 'pings-ignored-under-traffic', 'many-inflight']
FAULTS = ['error', 'eof', 'refuse', 'silence']
OPS = [('connect', 0)] + [('send', i) for i in range(4)] + [('recv', i) for i in range(10)]


def build_plan():
  plan = []
  for tr, skels in (('thrift', SERIAL_SKELETONS), ('mux', MUX_SKELETONS)):
    for sk in skels:
      plan.append((tr, sk, None, None, None, None))          # fault-free reference run
      for conn_ord in (0, 1):
        for (op, ordinal) in OPS:
          for f in FAULTS:
            if op == 'connect' and f == 'eof':
              continue
            if op == 'send' and f == 'refuse':
              continue
            plan.append((tr, sk, conn_ord, op, ordinal, f))
    # the peer answers one request and closes the connection in the same instant
    for how in ('fin', 'rst'):
      for k in (0, 1, 2):
        plan.append((tr, 'reply+close', 0, 'srvclose', k, how))
  return plan


PLAN = build_plan()


class C08(BaseCheck):
  ID = 'C08'
  LEVEL = 'fault_enumeration'
  RULE = ('enumerated space = {serial Thrift transport x skeletons open/one/two/after-timeout/chunked/timeout-in-write (deadline fires inside a blocked partial write)/expired-on-arrival (deadline already past when the request reaches the transport)/retry-from-handler (the error handler of a failed request hands a follow-up to the transport synchronously, below the timeout sink)/second-life (closed by its owner and opened again; faults then hit the second connection)/request-during-reconnect (a second request reaches the transport while it re-establishes its connection after a timeout, 0.2 s connect latency), '
          'ThriftMux transport x skeletons many-inflight (64/65/130/300 unanswered requests in flight when the connection dies)/stalled-peer (the peer reads and answers nothing: one request blocked in its write, two queued, the ping behind them must still bring the transport down)/pings-ignored-under-traffic (one answered request per second, no ping answered any more)/open(incl. initial ping)/one/three concurrent/timed-out+one/'
          'queued(stalled writer)/ping/requests-while-opening/silent-inflight (peer goes silent with a request in flight and a timed-out one unacknowledged)} + {reply and close (FIN/RST) in one instant on request 0/1/2} x connection ordinal {0,1} x op {connect; send 0-3; recv 0-9} x fault '
          '{exception, EOF, refusal, silence}; quick and thorough both sweep it completely (thorough adds '
          'seeded timing variants per point). A point whose planned fault never fires (the skeleton performs '
          'fewer operations) is counted as not reached. Oracle per run: every request gets exactly one '
          'completion, an error when a hard fault hit it in flight; after a hard fault the transport reports '
          'Closed and its fault signal fired; whenever the transport reports Open and idle at the end, a probe '
          'request against the now healthy peer must reach the peer and complete. non-trivial = the planned '
          'fault fired; distinct by (transport, skeleton, connection, op, ordinal, fault)')
  ANCHORS = ('scales.thrift.sink:SocketTransportSink._Fault',
             'scales.thrift.sink:SocketTransportSink._AsyncProcessTransaction',
             'scales.mux.sink:MuxSocketTransportSink._Shutdown',
             'scales.mux.sink:MuxSocketTransportSink._RecvLoop',
             'scales.mux.sink:MuxSocketTransportSink._SendLoop',
             'scales.thriftmux.sink:SocketTransportSink._PingTimeoutHelper',
             'scales.scales_socket:ScalesSocket.open')
  REQUIRED_ANCHORS = ANCHORS
  REQUIRED_CLASSES = ('thrift', 'mux', 'fault:connect', 'fault:send', 'fault:recv', 'kind:error', 'kind:eof',
                      'kind:refuse', 'kind:silence', 'reconnect-fault', 'probe', 'ping-silence', 'bare-socket', 'resolver-lists-address-twice', 'error:ETIMEDOUT', 'error:EHOSTUNREACH', 'many-inflight', 'reply-and-close-same-instant', 'timeout-in-write', 'silent-with-inflight', 'requests-while-opening',
                      'expired-on-arrival', 'retry-from-handler', 'request-during-reconnect', 'stalled-peer', 'pings-ignored-under-traffic', 'second-life')
  ASSUMPTIONS = ('a silence fault (peer stops answering without closing) legitimately leaves the transport '
                 'open; only the probe clause applies then',)
  QUICK_WALL = 180
  THOROUGH_WALL = 1800
  MIN_DISTINCT = 10
  EXHAUSTIVE = {'quick': True, 'thorough': True}

  def n_cases(self, tier):
    return len(PLAN) * (1 if tier == 'quick' else 40)

  def run_case(self, env, rng, idx, tier):
    import gevent
    from scales.constants import SinkProperties, MessageProperties
    from scales.loadbalancer.zookeeper import Endpoint
    from scales.message import (ChannelConcurrencyError, Deadline, MethodCallMessage, MethodReturnMessage,
                                TimeoutError as ScalesTimeout)
    from scales.sink import ClientMessageSink, ClientMessageSinkStack, TimeoutSinkProvider
    from scales.thrift.sink import SocketTransportSink as ThriftTransport, ThriftSerializerSink
    from scales.thriftmux.sink import SocketTransportSink as MuxTransport, ThriftMuxMessageSerializerSink
    from vlib import servers, simnet
    from vlib.stackworld import get_net, _PORT
    from vlib.gen.verifsvc import ExtService
    out = CaseResult()
    tr, sk, conn_ord, op, ordinal, fkind = PLAN[idx % len(PLAN)]
    variant = idx // len(PLAN)
    classes = {tr}
    net = get_net(env)
    net.reset()
    _PORT[0] += 1
    port = _PORT[0]
    plan = {}

    class Policy(servers.DefaultPolicy):
      def __call__(self, server, conn, req):
        call = req.get('call')
        key = call[1][0] if call and call[1] else None
        return dict(plan.get(key, {'delay': 0.001 * (1 + (variant % 3))}))

      def ping(self, server, conn, tag):
        if plan.get('ping-drop-after') is not None and len(server.pings) > plan['ping-drop-after']:
          return {'drop': True}
        return {'delay': 0.0005}
    srv = (servers.ThriftServer if tr == 'thrift' else servers.MuxServer)(net, 'th', port, Policy())
    if variant:
      srv.sim.connect_latency = rng.choice([0.0005, 0.01, 0.2])
    if op == 'srvclose':
      classes.add('reply-and-close-same-instant')
    elif fkind is not None:
      # the error the operating system reports varies: a reset, a broken pipe, an unreachable host, or a
      # connection that timed out at the TCP level (keep-alive / retransmission gave up: ETIMEDOUT, which
      # Python raises as the built-in TimeoutError)
      import errno as errno_
      err_ = (errno_.ECONNRESET, errno_.ETIMEDOUT, errno_.ECONNRESET, errno_.EHOSTUNREACH)[(idx + variant) % 4]
      if fkind == 'error' and err_ != errno_.ECONNRESET:
        classes.add('error:' + errno_.errorcode[err_])
      net.fault_plan[(srv.ep, conn_ord, op, ordinal)] = simnet.Fault(fkind, err_)
      classes.add('fault:' + op)
      classes.add('kind:' + fkind)
    if (idx + variant) % 5 == 3:
      # a resolver that lists the peer's address twice
      net.dns_dup.add('th')
      classes.add('resolver-lists-address-twice')
    tp = (ThriftTransport if tr == 'thrift' else MuxTransport).Builder()
    if (idx + variant) % 3 == 2:
      # the transport driven over a plain ScalesSocket (no metrics wrapper), as a caller assembling the sinks
      # by hand would: the socket class's own read/write loops carry the frames
      from scales.scales_socket import ScalesSocket
      cls_ = ThriftTransport if tr == 'thrift' else MuxTransport

      class BareProvider(object):
        Role = None

        def CreateSink(self, props_):
          e_ = props_[SinkProperties.Endpoint]
          return cls_(ScalesSocket(e_.host, e_.port), props_[SinkProperties.Label])
      tp = BareProvider()
      classes.add('bare-socket')
    sp = (ThriftSerializerSink if tr == 'thrift' else ThriftMuxMessageSerializerSink).Builder()
    sp.next_provider = tp
    tprov = TimeoutSinkProvider()
    tprov.next_provider = sp
    props = {SinkProperties.Endpoint: Endpoint('th', port), SinkProperties.Label: 'c08',
             SinkProperties.ServiceInterface: ExtService.Iface}
    top = tprov.CreateSink(props)
    transport = top.next_sink.next_sink
    faults = []
    transport.on_faulted.Subscribe(lambda v: faults.append((env.now, repr(v)[:80])))
    reqs = []

    class Term(ClientMessageSink):
      def AsyncProcessRequest(self, *a):
        raise NotImplementedError()

      def AsyncProcessResponse(self, sink_stack, context, stream, msg):
        context['deliveries'].append((env.now, env.emit('stack.deliver', rid=context['id'],
                                                       err=type(msg.error).__name__ if msg.error else None)['seq'], msg))
        if sk == 'retry-from-handler' and msg.error is not None and not retried and len(context['deliveries']) == 1:
          # the caller's error handler retries at once, synchronously, from inside the completion of
          # the failed request: whatever state the transport shows at that instant, the retry
          # is completed exactly once
          retried.append(context['id'])
          classes.add('retry-from-handler')
          # (handed over below the timeout sink and with a far deadline, so that only the transport can
          # complete it)
          request(T=600.0, inline=True, entry=top.next_sink)
    term = Term()

    class RecStack(ClientMessageSinkStack):
      """The request's real sink stack; additionally records messages that reach it when it is
      already drained (i.e. after the request was completed)."""
      def AsyncProcessResponse(self, stream, msg):
        if not self.Any():
          self.late.append((env.now, 'stream' if msg is None else type(getattr(msg, 'error', None)).__name__))
        return ClientMessageSinkStack.AsyncProcessResponse(self, stream, msg)

    retried = []

    def request(T=1.0, act=None, entry=None, inline=False):
      key = 'k%d-%d' % (len(reqs), rng.getrandbits(16))
      if act is not None:
        plan[key] = act
      r = {'id': len(reqs), 'key': key, 'deliveries': [], 't': env.now, 'T': T,
           'faults_before': len(net.faults_fired)}
      reqs.append(r)
      msg = MethodCallMessage(ExtService.Iface, 'echo', (key,), {})
      msg.properties[MessageProperties.Endpoint] = None
      msg.properties[Deadline.KEY] = env.now + T
      st = RecStack()
      st.late = r['late'] = []
      st.Push(term, r)
      r['issue_seq'] = env.emit('req.issue', rid=r['id'])['seq']
      if inline:
        (entry or top).AsyncProcessRequest(st, msg, None, {})
      else:
        gevent.spawn((entry or top).AsyncProcessRequest, st, msg, None, {})
      return r

    def check_state(where):
      """At a quiescent point: a hard fault on the transport's current connection
      must have left it Closed with its fault signal raised."""
      hard_ = [f for f in net.faults_fired if f[1] in ('error', 'eof', 'refuse')]
      if not hard_ or checked[0]:
        return
      reopened_ = len(srv.sim.conns) > hard_[0][0][1] + 1 and not srv.sim.conns[-1].client_closed \
        and not srv.sim.conns[-1].server_closed
      if reopened_:
        return
      checked[0] = True
      out.obligations += 2
      st = transport.state
      if st != CLOSED:
        out.violate('state:not-closed', 'a %s at %s op %d (connection #%d) killed the connection but afterwards (%s) '
                    'the transport reports state %s' % (fkind, op, ordinal, conn_ord, where,
                                                        {1: 'Idle', 2: 'Open', 3: 'Busy'}.get(st, st)),
                    dict(facts0, where=where), {'faults_fired': [(f[0][2], f[0][3], f[1]) for f in net.faults_fired]})
      elif not faults and not (sk == 'second-life' and op == 'connect' and conn_ord == 1):
        # (a re-open that fails is reported to the owner through the result of its Open() call; the
        # transport was closed before, so the fault signal has nothing new to say - not judged)
        out.violate('signal:not-raised', 'transport closed after a %s at %s op %d without raising its fault '
                    'signal' % (fkind, op, ordinal), facts0)
    checked = [False]
    facts0 = {'transport': tr, 'skeleton': sk, 'op': op, 'fault': fkind}

    def step(dt, where):
      env.advance(dt)
      check_state(where)

    # ---------------------------------------------------------------- skeleton
    open_ar = top.Open()
    if sk == 'requests-while-opening':
      # requests handed to the transport after Open() was called and before it completes are
      # parked until the open finishes: if it fails they are in flight on a failed connection
      classes.add('requests-while-opening')
      request(T=600.0)      # deadlines far away: only the transport can complete them in this case
      request(T=600.0)
    g = 0
    while not open_ar.ready() and g < 400:
      env.advance(0.05)
      g += 1
    open_failed = open_ar.ready() and open_ar.exception is not None
    if not open_ar.ready():
      # e.g. black-holed connect: give it the full SYN timeout
      env.advance(130)
      open_failed = open_ar.ready() and open_ar.exception is not None
    step(0.01, 'after open')
    if sk == 'reply+close':
      # request #ordinal is answered and the connection closed (fin/rst) in the same instant
      n_req = 1 if tr == 'thrift' else 3
      for i in range(n_req):
        d = 0.004 + 0.001 * i
        act = {'delay': d}
        if i == min(ordinal, n_req - 1):
          act = {'delay': d, 'close': fkind, 'close_delay': d}
        request(act=act)
      env.advance(1.5)
      if tr == 'thrift':
        request()
        env.advance(1.5)
    elif tr == 'thrift':
      if sk == 'one':
        request()
        env.advance(1.5)
      elif sk == 'two':
        request()
        step(0.3, 'after the first request')
        request()
        env.advance(1.5)
      elif sk == 'after-timeout':
        request(T=0.05, act={'drop': True})      # times out, transport reconnects
        step(0.3, 'after the timeout and reconnect')
        request()
        env.advance(1.5)
      elif sk == 'chunked':
        request(act={'delay': 0.001, 'chunks': [(1, 0.001), (3, 0.001), (5, 0.002), (7, 0.001), (2, 0.001), (9, 0.001)]})     # the body itself arrives in pieces
        env.advance(1.5)
      elif sk == 'second-life':
        # the owner closes the transport and opens it again (Close() resets the open result): the
        # second connection is subject to the same rules as the first
        classes.add('second-life')
        request()
        env.advance(1.0)
        transport.Close()
        env.advance(0.1)
        del faults[:]          # whatever the first life signalled was its owner's to handle
        ar2_ = transport.Open()
        g2_ = 0
        while not ar2_.ready() and g2_ < 400:
          env.advance(0.05)
          g2_ += 1
        if not ar2_.ready():
          env.advance(130)
        step(0.01, 'after the second open')
        request()
        env.advance(1.5)
      elif sk == 'request-during-reconnect':
        # a request times out against a silent peer, the transport re-establishes its connection and
        # that takes a while (a network round trip); a second request reaches the transport meanwhile
        # (a singleton pool, or any caller that does not look at the state first, hands it over)
        classes.add('request-during-reconnect')
        srv.sim.connect_latency = 0.2
        request(T=0.05, act={'drop': True})
        env.advance(0.06 + 0.1)
        request(T=600.0, entry=top.next_sink)
        step(0.5, 'after the reconnect')
        srv.sim.connect_latency = 0.0005
        request()
        env.advance(1.5)
      elif sk == 'retry-from-handler':
        request()
        env.advance(1.5)
        request()
        env.advance(1.5)
      elif sk == 'expired-on-arrival':
        # a request whose deadline has already passed when it reaches the transport (it expired in
        # a pool queue or while the connection opened): failed once, the transport stays usable
        classes.add('expired-on-arrival')
        # (handed over below the timeout sink, which would not let an expired request through)
        request(T=rng.choice([-0.01, -1.0, 0.0]), entry=top.next_sink)
        step(0.4, 'after the request that had expired on arrival')
        if not reqs[-1]['deliveries']:
          # the transport fails it once its reconnect has finished; a black-holed reconnect takes
          # the whole connect timeout (no timeout sink above the transport completes it earlier here)
          env.advance(130)
        request()
        env.advance(1.5)
      elif sk == 'timeout-in-write':
        # the peer stops draining: write() commits a prefix of the frame and blocks; the
        # deadline fires inside the write; afterwards the peer is healthy again
        classes.add('timeout-in-write')
        srv.sim.send_delay = lambda conn: 0.3
        request(T=0.05)
        step(0.5, 'after the timeout inside write')
        srv.sim.send_delay = None
        request()
        env.advance(1.5)
    else:
      if sk == 'one':
        request()
        env.advance(1.5)
      elif sk == 'three':
        for _ in range(3):
          request(act={'delay': 0.005})
        env.advance(1.5)
      elif sk == 'retry-from-handler':
        for _ in range(2):
          request(act={'delay': 0.005})
        env.advance(1.5)
        request()
        env.advance(1.5)
      elif sk == 'timed-out+one':
        request(T=0.05, act={'drop': True})
        step(0.2, 'after the timed-out request')
        request()
        env.advance(1.5)
      elif sk == 'queued':
        srv.sim.send_delay = lambda conn: 0.05
        for _ in range(3):
          request(T=rng.choice([0.03, 1.0]))
        env.advance(1.0)
        srv.sim.send_delay = None
        env.advance(1.0)
      elif sk == 'ping':
        plan['ping-drop-after'] = 1 + (variant % 2)       # initial ping answered, a later one is not
        classes.add('ping-silence')
        request()
        env.advance(1.0)
        for _ in range(3):
          env.advance(45.0)             # ping every 30-40 s, 5 s grace
          if transport.state == CLOSED:
            break
          request()
          env.advance(0.5)
        # a ping the peer did not answer must shut the transport down within 5 s
        unanswered = [p for i, p in enumerate(srv.pings) if i > plan['ping-drop-after'] - 0]
        if unanswered and not net.faults_fired:
          out.obligations += 1
          env.run_until(max(env.now, unanswered[0]['vt'] + 5.0 + 0.05))
          if transport.state != CLOSED or not faults:
            out.violate('ping:no-shutdown', 'a ping went unanswered for more than 5 s but the transport reports '
                        'state %s (fault signals: %d)' % (transport.state, len(faults)), facts0)
      elif sk == 'requests-while-opening':
        # a peer that has gone silent is only found out by the next ping (30-40 s + 5 s grace)
        env.advance(50.0 if fkind == 'silence' else 1.5)
      elif sk == 'pings-ignored-under-traffic':
        # the peer keeps answering requests but no ping any more (a wedged control path): steady
        # traffic, one answered request per second; the unanswered ping must still bring the
        # transport down within its 5 s, whatever else arrives meanwhile
        classes.add('pings-ignored-under-traffic')
        request()
        env.advance(1.0)
        plan['ping-drop-after'] = len(srv.pings)
        t_from = env.now
        for _ in range(47):
          if transport.state == CLOSED:
            break
          request(T=5.0, act={'delay': 0.002})
          env.advance(1.0)
        if not net.faults_fired and not open_failed:
          out.obligations += 1
          if transport.state != CLOSED or not faults:
            out.violate('ping:no-shutdown', 'the peer has answered requests but no ping for %.0fs (pings are due every 30-40 s, '
                        '5 s grace; pings it ignored: %d) and the transport reports state %s (fault signals: %d)' % (
                          env.now - t_from, len(srv.pings) - plan['ping-drop-after'], transport.state, len(faults)), facts0)
      elif sk == 'many-inflight':
        # dozens to hundreds of requests are in flight (written, unanswered) when the connection dies - by
        # the planned fault, or at the latest when the peer hangs up on the last request
        classes.add('many-inflight')
        for _ in range((65, 130, 64, 300)[(idx + variant) % 4]):
          request(T=600.0, act={'drop': True})
        env.advance(0.5)
        request(T=600.0, act={'delay': 0.01, 'close': ('fin', 'rst')[((idx + variant) // 4) % 2], 'close_delay': 0.01})
        env.advance(1.5)
      elif sk == 'stalled-peer':
        # the peer stalls completely (reads nothing, answers nothing, connection up): one request is
        # blocked inside its write, two more wait in the send queue behind it; the keep-alive ping
        # (queued behind them as well) goes unanswered and must bring the transport down
        classes.add('stalled-peer')
        request()
        env.advance(1.0)
        plan['ping-drop-after'] = len(srv.pings)
        stalled_from = env.now
        srv.sim.send_delay = lambda conn: 100000.0
        rs = [request(T=600.0, act={'drop': True}) for _ in range(3)]
        env.advance(40.0 + 5.0 + 1.0)
        if not net.faults_fired and not open_failed:
          out.obligations += 2
          if transport.state != CLOSED or not faults:
            out.violate('ping:no-shutdown', 'the peer has been stalled for %.0fs (one request blocked in its write, two queued; pings are '
                        'due every 30-40 s, 5 s grace) but the transport reports state %s (fault signals: %d)' % (
                          env.now - stalled_from, transport.state, len(faults)), facts0)
          else:
            bad = [r['id'] for r in rs if len(r['deliveries']) != 1]
            if bad:
              out.violate('request:completions', 'requests %r, in flight or queued on the stalled connection, were not failed '
                          'exactly once when it was shut down' % (bad,), dict(facts0, n=0))
        srv.sim.send_delay = None
      elif sk == 'silent-inflight':
        # the peer goes completely silent (connection stays up) while one request is in flight
        # and another has timed out without its discard being acknowledged: the next ping
        # (every 30-40 s, 5 s grace) must detect it
        classes.add('silent-with-inflight')
        request()
        env.advance(1.0)
        plan['ping-drop-after'] = len(srv.pings)
        silent_from = env.now
        r_inflight = request(T=600.0, act={'drop': True})
        request(T=0.05, act={'drop': True})
        env.advance(40.0 + 5.0 + 1.0)
        if not net.faults_fired and not open_failed:
          out.obligations += 2
          if transport.state != CLOSED or not faults:
            out.violate('ping:no-shutdown', 'the peer has been silent for %.0fs with a request in flight (pings are due '
                        'every 30-40 s, 5 s grace) but the transport reports state %s (fault signals: %d, pings '
                        'seen by the peer since: %d)' % (env.now - silent_from, transport.state, len(faults),
                                                         len(srv.pings) - plan['ping-drop-after']), facts0)
          elif len(r_inflight['deliveries']) != 1:
            out.violate('request:completions', 'the request in flight on the silent connection got %d completions' % (
              len(r_inflight['deliveries'])), dict(facts0, n=len(r_inflight['deliveries'])))
    env.advance(3.0)      # quiet tail

    # ---------------------------------------------------------------- oracle
    fired = list(net.faults_fired)
    if op == 'srvclose':
      fkind_label = 'server-' + fkind
    facts = {'transport': tr, 'skeleton': sk, 'op': op, 'fault': fkind}
    if fkind is not None and conn_ord == 1 and fired:
      classes.add('reconnect-fault')
    hard = [f for f in fired if f[1] in ('error', 'eof', 'refuse')]
    for r in reqs:
      out.obligations += 1
      d = r['deliveries']
      if not d and fkind == 'silence' and fired and transport.state != CLOSED and r['t'] + r['T'] > env.now:
        continue      # swallowed by a silent peer, deadline not reached, connection still up: legitimately pending
      if len(d) != 1:
        out.violate('request:completions', 'request %d got %d completions %r (fault %r fired: %s)' % (
          r['id'], len(d), [type(x[2].error).__name__ for x in d], (op, ordinal, fkind), bool(fired)),
          dict(facts, n=len(d)), {'faults_fired': [(f[0][2], f[0][3], f[1]) for f in fired]})
        continue
      m = d[0][2]
      # failed by the transport (not by the caller's own timeout), then handed another message
      out.obligations += 1
      if m.error is not None and not isinstance(m.error, ScalesTimeout) and r['late']:
        out.violate('request:second-message-after-failure', 'request %d was failed with %s and afterwards the '
                    'transport delivered another message to its sink stack: %r' % (
                      r['id'], type(m.error).__name__, r['late']), facts)
      if m.error is None and not (isinstance(m, MethodReturnMessage) and m.return_value == 'echo:' + r['key']):
        out.violate('request:wrong-value', 'request %d returned %r' % (r['id'], m.return_value), facts)
    # a hard fault on an established connection fails what is in flight at once
    for f in fired:
      if f[1] in ('error', 'eof') and f[0][2] in ('send', 'recv'):
        for r in reqs:
          if r['t'] < f[2] and r['deliveries'] and r['deliveries'][0][0] > f[2] + 1e-6 and r['t'] + r['T'] > f[2] + 0.011:
            out.obligations += 1
            # in flight when the connection died, yet completed later than that instant
            conn_of = [q for q in srv.requests if q['call'] and q['call'][1] and q['call'][1][0] == r['key']]
            if conn_of and srv.sim.conns[f[0][1]].id == conn_of[0]['conn']:
              out.violate('request:not-failed-at-fault', 'request %d was in flight when a %s hit %s op %d, but it was '
                          'only completed %.3fs later (%s)' % (r['id'], f[1], f[0][2], f[0][3], r['deliveries'][0][0] - f[2],
                                                              type(r['deliveries'][0][2].error).__name__), facts)
    state = transport.state
    check_state('at the end')
    # a transport that has raised its fault signal has been given up by its owners: it stays closed
    out.obligations += 1
    if faults and state in (OPEN, BUSY):
      out.violate('state:open-after-fault-signal', 'the transport raised its fault signal (%r) and reports state %s at the end '
                  '(connections the peer still sees open: %d)' % (
                    faults[0], {2: 'Open', 3: 'Busy'}[state],
                    len([c for c in srv.sim.conns if not c.client_closed])), facts)
    if False and hard:
      out.obligations += 2
      # the connection that the fault hit is dead; unless the transport has since
      # re-opened on its own (serial timeout path) it must report Closed + signal
      reopened = len(srv.sim.conns) > hard[0][0][1] + 1 and not srv.sim.conns[-1].client_closed \
        and not srv.sim.conns[-1].server_closed
      if not reopened:
        if state != CLOSED:
          out.violate('state:not-closed', 'a %s at %s op %d killed the connection but the transport reports '
                      'state %s' % (fkind, op, ordinal, {1: 'Idle', 2: 'Open', 3: 'Busy'}.get(state, state)),
                      dict(facts, phase='open' if not reqs or hard[0][2] < reqs[0]['t'] else 'traffic'),
                      {'open_failed': open_failed, 'faults_fired': [(f[0][2], f[0][3], f[1]) for f in fired]})
        elif not faults:
          out.violate('signal:not-raised', 'transport closed after a %s at %s op %d without raising its fault '
                      'signal' % (fkind, op, ordinal), facts)
    # probe: open + idle => able to carry the next request
    net.fault_plan.clear()
    for c in srv.sim.conns:
      # A hung mux peer becomes healthy again on the same connection.  The serial transport
      # must have replaced a connection on which a request timed out, so a hung serial
      # connection stays hung: the probe has to travel on a fresh one.
      if c.silenced and tr == 'mux':
        c.resume()
    env.advance(0.05)
    srv.sim.mode = 'up'
    srv.sim.send_delay = None
    plan.clear()
    if transport.state == OPEN:
      classes.add('probe')
      n0 = len(srv.requests)
      pr = request(T=1.0)
      env.advance(1.5)
      out.obligations += 1
      d = pr['deliveries']
      ok = len(d) == 1 and d[0][2].error is None and len(srv.requests) > n0
      if not ok:
        err = d[0][2].error if d else None
        out.violate('probe:open-but-unusable', 'the transport reports Open and idle, but a fresh request against '
                    'the healthy peer %s (%s)' % ('never reached it' if len(srv.requests) == n0 else 'failed',
                                                 type(err).__name__ + ': ' + str(err)[:80] if err else 'no completion'),
                    dict(facts, err=type(err).__name__ if err else None),
                    {'faults_fired': [(f[0][2], f[0][3], f[1]) for f in fired], 'open_failed': open_failed})
    try:
      transport.Close()
    except Exception:  # noqa: clean-up only, every oracle has been evaluated
      pass
    env.advance(0.2)
    out.classes = sorted(classes)
    out.nontrivial = bool(fired) or fkind is None or op == 'srvclose'
    out.extra = {'faults_fired': len(fired), 'points_not_reached': 0 if (fired or fkind is None) else 1,
                 'requests': len(reqs), 'diag_greenlet_errors': len(env.errors)}
    out.sig = (tr, sk, conn_ord, op, ordinal, fkind)
    if fired and idx % 37 == 0:
      out.sample = {'point': [tr, sk, conn_ord, op, ordinal, fkind], 'final_state': state, 'fault_signals': len(faults),
                    'requests': [[type(x[2].error).__name__ if x[2].error else 'ok' for x in r['deliveries']] for r in reqs]}
    return out


CHECK = C08()
