"""C03 - balancer sends each request to a least-loaded open member."""
from props.lbcommon import LBCheck


class C03(LBCheck):
  ID = 'C03'
  FOCUS = ('dispatch:',)
  RULE = ('case = one history (30-2000 ops: dispatch, complete in any order by reply/error/timeout/'
          'connection fault, member down/up, leave, join incl. duplicates/unknown/re-joins, time '
          'advances, follow-up dispatches issued from the response handler of a completing request) against a real Heap or Aperture balancer under the real timeout sink with '
          'harness-owned member channels (sync/delayed/failing opens). Per dispatch the chosen '
          'channel is compared with a reference model of outstanding requests per member incarnation: '
          'candidate set P0 = members in use just before the dispatch (+ members added during it). '
          'non-trivial = at least one dispatch judged; distinct by (balancer, #members, open mode, '
          'classes of events mixed in, length)')
  REQUIRED_CLASSES = ('heap', 'aperture', 'no-members', 'all-down-dispatch', 'member-down', 'member-up',
                      'removal-at-depth', 'rejoin', 'complete:reply', 'complete:error', 'complete:timeout',
                      'dispatch-from-response-handler', 'yielding-log-handler', 'member-up-while-choosing')
  ASSUMPTIONS = ('member = channel incarnation; a re-joined endpoint is a new member',
                 'candidate set for the aperture balancer is read from its heap array at a quiescent '
                 'point just before each dispatch (the property is about "the members currently in its aperture")')


CHECK = C03()
