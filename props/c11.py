"""C11 - multiplexed requests carry unique, unreserved tags that are recycled safely.

Wire-level monitor at the simulated mux server (and Kafka broker) plus an
icontract post-condition on the real TagPool.get/release."""
import struct

from vlib.framework import BaseCheck, CaseResult

MAXTAG = (1 << 24) - 2


class ContractBroken(Exception):
  pass


class C11(BaseCheck):
  ID = 'C11'
  RULE = ('case = one ThriftMux client (or, every 5th case, the Kafka mux transport) on one or two '
          'endpoints; 20-400 calls at concurrency 1-40 with replies in any order / late / never, timeouts '
          'before transmission (stalled writer) and after, server-side connection kills (re-opens through the '
          'resurrector) and, in adversarial cases, frames injected by the peer: duplicated replies, replies '
          'for never-issued tags just above the high-water mark, Rerr/Rdispatch on the reserved tags 0 and '
          '1, tags >= 2^24-1, never-issued tags one high bit away from a recent tag. Per connection the unanswered-tag set U is maintained from the decoded frames '
          'and the client\'s read offsets: each Tdispatch tag must be in [2, 2^24-2] and not in U; at the '
          'end the highest tag must be <= 1 + peak(calls in flight + timed-out-unanswered; per-connection send '
          'queue order from a tap on the transport\'s entry point). Function level: '
          'icontract conditions on TagPool.get/release against a shadow lease set, and the real TagPool with a '
          'small tag space driven through exhaustion and beyond; a third of them hands 1-25 requests with short deadlines to timeout sink -> serializer -> transport while the connection is still being established (they expire in the open wait and are never written), then sequential calls and a burst: highest tag <= 1 + the most requests that ever held a tag at once. non-trivial = at least '
          '10 requests decoded; distinct by (transport, adversarial frame classes, timeout classes, re-opens, '
          'concurrency bucket)')
  ANCHORS = ('scales.mux.sink:TagPool.get', 'scales.mux.sink:TagPool.release',
             'scales.mux.sink:MuxSocketTransportSink._ReleaseTag',
             'scales.mux.sink:MuxSocketTransportSink._HandleTimeout',
             'scales.kafka.sink:KafkaTransportSink._ProcessReply')
  REQUIRED_ANCHORS = ANCHORS
  REQUIRED_CLASSES = ('thriftmux', 'kafka', 'adv:duplicate-reply', 'adv:unknown-tag', 'adv:reserved-tag-1',
                      'adv:tag-0', 'adv:huge-tag', 'adv:bitflip-tag', 'adv:rdiscarded', 'error-frame-replies', 'kafka:timeouts', 'tagpool:exhausted', 'tagpool:get-after-refusal', 'direct:bare-messages', 'direct:expired-while-opening', 'direct:retry-from-reply-handler', 'direct:answered-after-expiry-in-queue', 'timeout-before-send', 'timeout-after-send', 're-open',
                      'tag-reuse', 'yielding-log-handler', 'direct:reply-handler-yields', 'direct:answered-twice-handler-yields', 'replies-in-several-segments', 'large-tags', 'callers-abandon-behind-deep-backlog', 'keepalive-ping-between-requests', 'short-sends')
  ASSUMPTIONS = ('a tag counts as answered when the client has read the last byte of any R-frame carrying it '
                 '(known from the simulated socket\'s read offsets)',)
  QUICK_CASES = 720
  THOROUGH_CASES = 20000
  QUICK_WALL = 180
  THOROUGH_WALL = 1800
  MIN_DISTINCT = 10

  def setup(self, env, tier):
    """icontract conditions on the real TagPool (single-threaded drive)."""
    self.contract_evals = 0
    self.contract_failures = []
    try:
      import icontract
    except ImportError:
      icontract = None
    from scales.mux import sink as ms
    check = self

    def leased(self_):
      return self_.__dict__.setdefault('_verif_leased', set())

    def get_ok(self, result):
      check.contract_evals += 1
      ok = 2 <= result <= MAXTAG and result not in leased(self)
      if not ok:
        check.contract_failures.append(('get', result, sorted(leased(self))[:8]))
      leased(self).add(result)
      return True      # record, never abort what is being observed

    def release_ok(self, tag):
      check.contract_evals += 1
      if tag not in leased(self):
        check.contract_failures.append(('release-unleased', tag, sorted(leased(self))[:8]))
      leased(self).discard(tag)
      return True
    if icontract is not None and not getattr(ms.TagPool.get, '_verif', False):
      g = icontract.ensure(get_ok, error=ContractBroken)(ms.TagPool.get)
      r = icontract.require(release_ok, error=ContractBroken)(ms.TagPool.release)
      g._verif = r._verif = True
      ms.TagPool.get, ms.TagPool.release = g, r
      self.contracts = 'icontract'
    elif not getattr(ms.TagPool.get, '_verif', False):
      og, orl = ms.TagPool.get, ms.TagPool.release

      def get(self_):
        t = og(self_)
        get_ok(self_, t)
        return t

      def release(self_, tag):
        release_ok(self_, tag)
        return orl(self_, tag)
      get._verif = release._verif = True
      ms.TagPool.get, ms.TagPool.release = get, release
      self.contracts = 'plain-wrapper'

    # observation tap: which transport instance (= connection, tag pool) a call was queued on
    self.route = {}
    self.n_transports = 0
    if not getattr(ms.MuxSocketTransportSink.AsyncProcessRequest, '_verif', False):
      orig = ms.MuxSocketTransportSink.AsyncProcessRequest

      def AsyncProcessRequest(self_, sink_stack, msg, stream, headers):
        tid = self_.__dict__.get('_verif_tid')
        if tid is None:
          check.n_transports += 1
          tid = self_.__dict__['_verif_tid'] = check.n_transports
        a0 = msg.args[0] if getattr(msg, 'args', None) else None
        if isinstance(a0, str) and a0.startswith('c') and '-' in a0:
          try:
            check.route[int(a0[1:a0.index('-')])] = tid
          except ValueError:
            pass
        return orig(self_, sink_stack, msg, stream, headers)
      AsyncProcessRequest._verif = True
      AsyncProcessRequest.__wrapped__ = orig
      ms.MuxSocketTransportSink.AsyncProcessRequest = AsyncProcessRequest

  def finish(self, env, tier):
    return {'contract_evaluations': self.contract_evals}

  # ---------------------------------------------------------------------------
  def run_case(self, env, rng, idx, tier):
    out = CaseResult()
    self.tag_base = 1
    self._restore_tagpool = None
    if idx % 5 == 4:
      self._kafka(env, rng, idx, tier, out)
    else:
      try:
        self._thriftmux(env, rng, idx, tier, out)
      finally:
        if self._restore_tagpool is not None:
          self._restore_tagpool()
    return out

  def _monitor(self, env, out, conns, frame_events, facts, request_types=(2,), start=0):
    """Replay the event log (from index ``start``): U per connection."""
    events_ = env.events[start:]
    U = {}
    self.answered = []      # (conn, tag, seq) each time an unanswered tag was answered
    self.written = {}       # id(frame event) -> (conn, tag, send seq of its first byte)
    pending = {}      # conn -> list of (end_offset, tag)
    maxtag = {}
    reuse = 0
    # A request counts as written from the client's send() event that carried its
    # FIRST byte (a stalled writer finishes a frame it has begun; the server decodes
    # it later): a reply frame read after that point answers it.
    sends = {}        # conn -> sorted list of (end_offset, seq)
    for e in events_:
      if e['kind'] == 'net.send':
        sends.setdefault(e['conn'], []).append((e['start'] + e['n'], e['seq'], e['vt']))
    timeline = []
    wvt_of = {}     # events are kept alive by env.events for the duration of this call
    for e in events_:
      k = e['kind']
      if k == frame_events and e.get('type', 2) in request_types:
        wseq, wvt = e['seq'], e['vt']
        for end, sq, svt in sends.get(e['conn'], []):
          if end > e.get('start', 0):
            wseq, wvt = sq, svt
            break
        timeline.append((wvt, 0, wseq, e))
        wvt_of[id(e)] = wvt
        self.written[(e['conn'], e.get('start'))] = (e['tag'], wseq)
      elif k in ('srv.write', 'net.recv'):
        timeline.append((e['vt'], 1 if k == 'srv.write' else 2, e['seq'], e))
    timeline.sort(key=lambda x: x[2])
    # The client processes a frame it has read in a separate greenlet, so a
    # request written in the very instant in which a (forged, early) frame with
    # its tag was read is still answered by that frame: remember such frames.
    early = {}
    for _, _, _, e in timeline:
      k = e['kind']
      if k == 'srv.write' and e.get('label'):
        lab = e['label']
        tag = None
        if isinstance(lab, str) and ':' in lab:
          try:
            tag = int(lab.split(':')[1].split('/')[0])
          except ValueError:
            tag = None
        if tag is not None:
          pending.setdefault(e['conn'], []).append((e['end'], tag))
      elif k == 'net.recv':
        c = e['conn']
        lst = pending.get(c, [])
        while lst and lst[0][0] <= e['upto']:
          _, tag = lst.pop(0)
          if tag in U.setdefault(c, set()):
            U[c].discard(tag)
            self.answered.append((c, tag, e['seq']))
          else:
            early[(c, tag)] = e['vt']
      elif k == frame_events:
        c, tag = e['conn'], e['tag']
        out.obligations += 2
        u = U.setdefault(c, set())
        if not (2 <= tag <= MAXTAG):
          out.violate('tag:out-of-range', 'request written with tag %d (allowed 2..2^24-2)' % tag,
                      dict(facts, reserved=tag in (0, 1)), {'conn': c, 'seq': e['seq']})
        elif early.pop((c, tag), None) == wvt_of[id(e)]:
          maxtag[c] = max(maxtag.get(c, 1), tag)
          continue      # answered by a frame read in the same instant
        elif tag in u:
          out.violate('tag:duplicate', 'request written with tag %d while another request with that tag is '
                      'unanswered on the same connection' % tag, facts, {'conn': c, 'seq': e['seq'], 'unanswered': sorted(u)[:10]})
        else:
          if tag <= maxtag.get(c, 1) and tag not in u:
            reuse += 1
        u.add(tag)
        maxtag[c] = max(maxtag.get(c, 1), tag)
    return maxtag, reuse

  def _tagpool_direct(self, rng, out, classes):
    """The real TagPool with a small tag space driven through exhaustion and beyond: every tag
    handed out lies in [2, max_tag-1] and is not leased; a refusal is only legitimate when the
    whole space is leased; released tags are handed out again."""
    from scales.mux.sink import TagPool
    mx = rng.choice([4, 5, 8, 13, 40])
    pool = TagPool(mx, 'svc', 'h:1')
    space = mx - 2                      # tags 2 .. mx-1
    leased = set()
    refused = 0
    classes.add('tagpool:small-space')
    for _ in range(rng.choice([30, 80, 200])):
      if leased and rng.random() < (0.25 if len(leased) < space else 0.5):
        t = rng.choice(sorted(leased))
        leased.discard(t)
        pool.release(t)
        continue
      out.obligations += 1
      try:
        t = pool.get()
      except Exception:  # noqa
        refused += 1
        classes.add('tagpool:exhausted')
        if len(leased) < space:
          out.violate('tagpool:refused-with-free-tags', 'get() refused with %d of %d tags leased (max_tag=%d, after %d '
                      'refusals)' % (len(leased), space, mx, refused), {'after_refusal': refused > 1})
          return
        continue
      if refused:
        classes.add('tagpool:get-after-refusal')
      if not (2 <= t <= mx - 1) or t in leased:
        out.violate('tagpool:bad-tag', 'get() returned %r with leased=%r, max_tag=%d (tags are 2..%d), after %d '
                    'refusals' % (t, sorted(leased)[:8], mx, mx - 1, refused), {'after_refusal': refused > 0,
                                                                                'reserved': t in (0, 1)})
        return
      leased.add(t)

  def _direct(self, env, rng, out, classes):
    """Requests handed straight to the ThriftMux serializer + transport sinks (no dispatcher, no
    balancer, no timeout sink), so that they arrive without any message property: stalled writer,
    forged replies for tags that are queued but not yet written, further requests."""
    import gevent
    from scales.constants import SinkProperties
    from scales.loadbalancer.zookeeper import Endpoint
    from scales.message import MethodCallMessage
    from scales.sink import ClientMessageSink, ClientMessageSinkStack
    from scales.thriftmux.sink import SocketTransportSink as MuxTransport, ThriftMuxMessageSerializerSink
    from vlib import muxcodec as mc, servers
    from vlib.stackworld import get_net, _PORT
    from vlib.gen.verifsvc import ExtService
    net = get_net(env)
    net.reset()
    _PORT[0] += 1
    port = _PORT[0]
    retry = rng.random() < 0.5       # the caller retries a failed call at once, from its reply handler
    attempts_seen = {}

    class RetryPolicy(servers.DefaultPolicy):
      # first attempts are answered with an error frame (current or legacy encoding), retries normally
      def __call__(self, server, conn, req):
        a0 = req['call'][1][0] if req.get('call') and req['call'][1] else None
        attempts_seen[a0] = attempts_seen.get(a0, 0) + 1
        if attempts_seen[a0] == 1 and rng.random() < 0.6:
          return {'delay': 0.002, 'as': rng.choice(['rerr', 'bad_rerr'])}
        return {'delay': 0.002}
    srv = servers.MuxServer(net, 'dm', port, RetryPolicy() if retry else servers.DefaultPolicy(0.002))
    tp = MuxTransport.Builder()
    sp = ThriftMuxMessageSerializerSink.Builder()
    sp.next_provider = tp
    top = sp.CreateSink({SinkProperties.Endpoint: Endpoint('dm', port), SinkProperties.Label: 'c11d',
                         SinkProperties.ServiceInterface: ExtService.Iface})
    classes.add('direct:bare-messages')
    try:
      top.Open().get(timeout=5)
    except Exception as e:  # noqa
      out.violate('direct:open-failed', repr(e), {'transport': 'thriftmux-direct'})
      return

    retried = []
    slow_handler = (not retry) and rng.random() < 0.5

    class Term(ClientMessageSink):
      def AsyncProcessRequest(self, *a):
        raise NotImplementedError()

      def AsyncProcessResponse(self, sink_stack, context, stream, msg):
        if slow_handler and rng.random() < 0.5:
          # a caller whose reply handler takes its time (and yields) before it returns to the transport
          classes.add('direct:reply-handler-yields')
          gevent.sleep(rng.choice([0.0, 0.004, 0.02]))
        if retry and context is not None and msg.error is not None and not context.get('retried'):
          # same message object, same connection, synchronously from inside the reply callback
          context['retried'] = True
          retried.append(context)
          classes.add('direct:retry-from-reply-handler')
          st2 = ClientMessageSinkStack()
          st2.Push(self, context)
          top.AsyncProcessRequest(st2, context['msg'], None, {})
        elif context is not None:
          context['done'] = context.get('done', 0) + 1
    term = Term()
    if not retry:
      srv.sim.send_delay = lambda conn: rng.choice([0.0, 0.02, 0.05])
    n = 0
    for _ in range(rng.choice([6, 15, 30])):
      for _b in range(rng.randint(1, 4)):
        msg = MethodCallMessage(ExtService.Iface, 'echo', ('d%d' % n,), {})    # no properties at all
        st = ClientMessageSinkStack()
        st.Push(term, {'msg': msg, 'arg': 'd%d' % n} if retry else None)
        gevent.spawn(top.AsyncProcessRequest, st, msg, None, {})
        n += 1
      env.advance(rng.choice([0.0, 0.001, 0.01]))
      if not retry and rng.random() < 0.6 and srv.sim.conns:
        conn = srv.sim.conns[-1]
        seen = [q['tag'] for q in srv.requests if q['conn'] == conn.id]
        t = max(seen or [1]) + rng.choice([1, 1, 2])       # queued, not written yet (or never issued)
        conn.write(mc.frame(mc.R_DISPATCH, t, mc.rdispatch_body(mc.ST_ERROR, [], b'early')), 0.0, None, 'adv:%d' % t)
      if slow_handler and rng.random() < 0.6 and srv.sim.conns:
        # the peer answers a tag that is in flight twice: a forged reply now, its own follows
        conn = srv.sim.conns[-1]
        inflight = [q['tag'] for q in srv.requests if q['conn'] == conn.id and q.get('reply_vt') is None or
                    (q['conn'] == conn.id and q.get('reply_vt', 0) > env.now)]
        if inflight:
          t = rng.choice(inflight)
          classes.add('direct:answered-twice-handler-yields')
          conn.write(mc.frame(mc.R_DISPATCH, t, mc.rdispatch_body(mc.ST_ERROR, [], b'twice')), 0.0, None, 'adv:%d' % t)
      env.advance(rng.choice([0.0, 0.005, 0.03]))
    srv.sim.send_delay = None
    env.advance(1.0)
    self._monitor(env, out, None, 'srv.frame', {'transport': 'thriftmux-direct', 'adversarial': ['early-reply']})
    if retried and not srv.bad_frames and any(not c.client_closed and not c.server_closed for c in srv.sim.conns):
      # every retry handed to the transport on a connection that is still up was written and answered
      seen_args = [q['call'][1][0] for q in srv.requests if q.get('call') and q['call'][1]]
      for ctx in retried:
        out.obligations += 1
        if not ctx.get('done'):
          out.violate('direct:retry-never-completed', 'the retry of %s, handed to the transport from the reply handler of its '
                      'failed first attempt, never completed (the peer saw that argument %d time(s)) although the connection is up' % (
                        ctx['arg'], seen_args.count(ctx['arg'])), {'transport': 'thriftmux-direct', 'written': seen_args.count(ctx['arg'])})
          break
    for bf in srv.bad_frames:
      out.violate('bad-frame', 'server could not decode client bytes: %r' % (bf,), {'transport': 'thriftmux-direct'})
    top.Close()
    env.advance(0.1)

  def _abandoned_behind_backlog(self, env, rng, out, classes):
    """Callers that hand their requests to the transport themselves (timeout sink -> serializer -> ThriftMux
    transport, no dispatcher greenlet in between).  The peer stops reading: one request sits in a blocked
    write and more than a thousand wait behind it; a few more callers, each under a gevent.Timeout of its
    own, make their calls in that state and give up when the timeout hits (wherever the call is then).  The
    peer recovers and answers everything.  Afterwards nothing is unanswered, so a burst of as many
    unanswered requests as were unanswered at the peak of the backlog needs no tag beyond those used then:
    a request that was never written may not keep a tag.  (Which free tag a request gets is the pool's
    business.)"""
    import gevent
    from scales.constants import SinkProperties, MessageProperties
    from scales.loadbalancer.zookeeper import Endpoint
    from scales.message import Deadline, MethodCallMessage
    from scales.sink import ClientMessageSink, ClientMessageSinkStack, TimeoutSinkProvider
    from scales.thriftmux.sink import SocketTransportSink as MuxTransport, ThriftMuxMessageSerializerSink
    from vlib import servers
    from vlib.stackworld import get_net, _PORT
    from vlib.gen.verifsvc import ExtService
    classes.add('callers-abandon-behind-deep-backlog')
    net = get_net(env)
    net.reset()
    _PORT[0] += 1
    port = _PORT[0]
    mode = {'answer': True}

    class Pol(servers.DefaultPolicy):
      def __call__(self, server, conn, req):
        return {'delay': 0.001} if mode['answer'] else {'drop': True}
    srv = servers.MuxServer(net, 'bk', port, Pol())
    tp = MuxTransport.Builder()
    sp = ThriftMuxMessageSerializerSink.Builder()
    sp.next_provider = tp
    tprov = TimeoutSinkProvider()
    tprov.next_provider = sp
    top = tprov.CreateSink({SinkProperties.Endpoint: Endpoint('bk', port), SinkProperties.Label: 'c11b',
                            SinkProperties.ServiceInterface: ExtService.Iface})
    done = []
    issued = [0]

    class Term(ClientMessageSink):
      def AsyncProcessRequest(self, *a):
        raise NotImplementedError()

      def AsyncProcessResponse(self, sink_stack, context, stream, msg):
        done.append(context)
    term = Term()

    def request():
      n_ = issued[0]
      issued[0] += 1
      msg = MethodCallMessage(ExtService.Iface, 'echo', ('b%d' % n_,), {})
      msg.properties[MessageProperties.Endpoint] = None
      msg.properties[Deadline.KEY] = env.now + 600.0
      st = ClientMessageSinkStack()
      st.Push(term, n_)
      top.AsyncProcessRequest(st, msg, None, {})      # in the caller's own greenlet
    facts = {'transport': 'thriftmux-direct', 'adversarial': ['abandoned-behind-backlog']}
    open_ar = top.Open()
    env.advance(0.5)
    if not open_ar.ready() or open_ar.exception is not None:
      out.violate('direct:open-failed', repr(open_ar.exception if open_ar.ready() else 'pending'), facts)
      return
    gevent.spawn(request)
    env.advance(0.2)
    srv.sim.send_delay = lambda conn: 5.0
    gevent.spawn(request)
    env.advance(0.001)          # the writer has taken this one and is blocked in its write
    nback = rng.choice([1023, 1024, 1030, 1100])

    def many():
      for _ in range(nback):
        request()
    g_many = gevent.spawn(many)
    env.advance(0.01)

    def impatient():
      with gevent.Timeout(rng.choice([0.02, 0.05, 0.3]), False):
        request()
    gs = [gevent.spawn(impatient) for _ in range(rng.randint(2, 8))]
    env.advance(1.0)
    srv.sim.send_delay = None
    for _ in range(60):
      env.advance(1.0)
      if g_many.ready() and all(g.ready() for g in gs) and len(done) >= len(srv.requests) and len(srv.requests) > nback:
        break
    env.advance(1.0)
    facts['backlog'] = nback
    # every request the peer received in that phase was unanswered at the moment it started reading again:
    # that many tags were held at once, legitimately
    P = len(srv.requests) - 1
    mode['answer'] = False
    n0 = len(srv.requests)

    def burst():
      for _ in range(P):
        request()
    gevent.spawn(burst)
    env.advance(3.0)
    tags = [q['tag'] for q in srv.requests[n0:]]
    hi = max([q['tag'] for q in srv.requests] or [1])
    out.obligations += 2
    if len(tags) != P:
      out.violate('backlog:burst-not-written', '%d of the %d requests of the final burst reached the peer' % (len(tags), P), facts)
    elif hi > 1 + P:
      out.violate('tag:unbounded-consumption', 'a backlog of %d requests behind a peer that did not read (with %d callers giving up '
                  'meanwhile) was answered completely; %d requests were unanswered at its peak, and a later burst of as many '
                  'unanswered requests drove the highest tag to %d: at most %d tags were ever held at once' % (
                    nback, len(gs), P, hi, P), dict(facts, after_backlog=True), {'highest_tags': sorted(tags)[-6:]})
    for bf in srv.bad_frames:
      out.violate('bad-frame', 'server could not decode client bytes: %r' % (bf,), facts)
    top.Close()
    env.advance(0.5)

  def _opening_with_deadlines(self, env, rng, out, classes):
    """Requests with short deadlines handed to timeout sink -> serializer -> ThriftMux transport
    while the connection is still being established: they expire while they wait for the open and
    are never written, so none of them may keep a tag; afterwards the tags in use stay bounded by
    the number of requests that ever held one at the same time."""
    import gevent
    from scales.constants import SinkProperties, MessageProperties
    from scales.loadbalancer.zookeeper import Endpoint
    from scales.message import Deadline, MethodCallMessage
    from scales.sink import ClientMessageSink, ClientMessageSinkStack, TimeoutSinkProvider
    from scales.thriftmux.sink import SocketTransportSink as MuxTransport, ThriftMuxMessageSerializerSink
    from vlib import servers
    from vlib.stackworld import get_net, _PORT
    from vlib.gen.verifsvc import ExtService
    net = get_net(env)
    net.reset()
    _PORT[0] += 1
    port = _PORT[0]
    srv = servers.MuxServer(net, 'do', port, servers.DefaultPolicy(0.002))
    lat = rng.choice([0.2, 0.6])
    srv.sim.connect_latency = lat
    tp = MuxTransport.Builder()
    sp = ThriftMuxMessageSerializerSink.Builder()
    sp.next_provider = tp
    tprov = TimeoutSinkProvider()
    tprov.next_provider = sp
    top = tprov.CreateSink({SinkProperties.Endpoint: Endpoint('do', port), SinkProperties.Label: 'c11o',
                            SinkProperties.ServiceInterface: ExtService.Iface})
    classes.add('direct:expired-while-opening')
    ev_start = len(env.events)
    done = []

    class Term(ClientMessageSink):
      def AsyncProcessRequest(self, *a):
        raise NotImplementedError()

      def AsyncProcessResponse(self, sink_stack, context, stream, msg):
        done.append(context)
    term = Term()

    def request(n_, T):
      msg = MethodCallMessage(ExtService.Iface, 'echo', ('o%d' % n_,), {})
      msg.properties[MessageProperties.Endpoint] = None
      msg.properties[Deadline.KEY] = env.now + T
      st = ClientMessageSinkStack()
      st.Push(term, n_)
      gevent.spawn(top.AsyncProcessRequest, st, msg, None, {})
    open_ar = top.Open()
    k = rng.choice([1, 3, 8, 25])
    for i in range(k):
      request(i, rng.choice([0.03, 0.05, lat * 0.5]))
      if rng.random() < 0.3:
        env.advance(0.002)
    env.advance(lat * 2 + 0.5)
    facts = {'transport': 'thriftmux-direct', 'adversarial': ['expired-while-opening']}
    if not open_ar.ready() or open_ar.exception is not None:
      out.violate('direct:open-failed', repr(open_ar.exception if open_ar.ready() else 'pending'), facts)
      return
    written_early = len([q for q in srv.requests])
    # strictly sequential answered calls, then a burst
    m = rng.choice([3, 8])
    for i in range(m):
      request(k + i, 5.0)
      env.advance(0.05)
    b = rng.choice([2, 6, 15])
    for i in range(b):
      request(k + m + i, 5.0)
    env.advance(1.0)
    # stalled writer: a request with a short deadline waits behind a blocked write, times out there,
    # the peer then answers its tag (before it was ever written), a new request takes the recycled
    # tag, and only then does the writer get going again: the expired request must stay unwritten
    from vlib import muxcodec as mc
    if rng.random() < 0.7 and srv.sim.conns and not srv.sim.conns[-1].client_closed:
      classes.add('direct:answered-after-expiry-in-queue')
      conn = srv.sim.conns[-1]
      srv.sim.send_delay = lambda c_: 0.3
      base = k + m + b
      request(base, 5.0)                      # its write blocks the send loop
      env.advance(0.001)
      seen_tags = [q['tag'] for q in srv.requests if q['conn'] == conn.id]
      request(base + 1, 0.05)                 # queued behind it; expires there
      env.advance(0.06)
      # the tag it was given: the pool hands out freed tags first, else the next fresh one
      free_ = sorted(getattr(top.next_sink.next_sink._tag_pool, '_set', ()))
      for t_ in set(range(2, max(seen_tags or [2]) + 4)):
        conn.write(mc.frame(mc.R_DISPATCH, t_, mc.rdispatch_body(mc.ST_ERROR, [], b'early')), 0.0, None, 'adv:%d' % t_)
      env.advance(0.01)
      request(base + 2, 5.0)                  # takes a recycled tag
      srv.sim.send_delay = None
      env.advance(1.5)
    maxtag, _reuse = self._monitor(env, out, None, 'srv.frame', facts, start=ev_start)
    out.obligations += 1
    hi = max(maxtag.values() or [1])
    bound = 1 + max(k, b, 1) + 3
    if hi > bound:
      out.violate('tag:unbounded-consumption', 'highest tag %d: %d requests expired while the connection was opening '
                  '(%d of them were written), then %d sequential calls and a burst of %d; at most %d requests ever held a '
                  'tag at the same time' % (hi, k, written_early, m, b, bound - 1), facts,
                  {'maxtag_per_conn': maxtag})
    for bf in srv.bad_frames:
      out.violate('bad-frame', 'server could not decode client bytes: %r' % (bf,), facts)
    top.Close()
    env.advance(0.1)

  def _thriftmux(self, env, rng, idx, tier, out):
    from scales.message import TimeoutError as ScalesTimeout
    from vlib import muxcodec as mc, servers
    from vlib.stackworld import StackWorld
    classes = {'thriftmux'}
    self.route = {}
    self._tagpool_direct(rng, out, classes)
    if idx % 3 == 0:
      self._direct(env, rng, out, classes)
    elif idx % 3 == 1:
      self._opening_with_deadlines(env, rng, out, classes)
    if idx % 24 == 11:
      self._abandoned_behind_backlog(env, rng, out, classes)
    ev_start = len(env.events)
    if idx % 3 == 2 and (idx // 3) % 2 == 0:
      # connections with a history: their tag pools have handed out (and still lease) the small tags,
      # so this case's requests carry tags beyond one byte / two bytes
      from scales.mux.sink import TagPool
      base_ = rng.choice([126, 127, 255, 32766, 65534])
      orig_init_ = TagPool.__init__

      def init_(pool_, *a, **k_):
        orig_init_(pool_, *a, **k_)
        pool_._next = base_
      TagPool.__init__ = init_
      self.tag_base = base_

      def restore_():
        TagPool.__init__ = orig_init_
      self._restore_tagpool = restore_
      classes.add('large-tags')
    if idx % 7 == 2:
      # debug logging through a handler that yields: every log call in the library is a point
      # where other greenlets run (tag allocation, registration and release all log)
      env.yielding_logs()
      classes.add('yielding-log-handler')
    adversarial = rng.random() < 0.5
    n_eps = rng.choice([1, 1, 2])
    conc = rng.choice([1, 3, 8, 20, 40])
    ncalls = rng.choice([20, 60, 150]) if tier == 'quick' else rng.choice([20, 60, 150, 400])
    plan_mode = rng.choice(['fast', 'reorder', 'mixed'])
    err_replies = rng.random() < 0.3
    if err_replies and plan_mode != 'fast':
      classes.add('error-frame-replies')
    chunked = idx % 4 == 1 and plan_mode != 'fast'
    if chunked:
      classes.add('replies-in-several-segments')

    class Policy(servers.DefaultPolicy):
      def __call__(self, server, conn, req):
        k = rng.random()
        if plan_mode == 'fast':
          return {'delay': 0.0005}
        if err_replies and rng.random() < 0.35:
          # the peer answers the tag with an error frame (Rerr, or its legacy encoding, type 127)
          return {'delay': rng.choice([0.0005, 0.002, 0.01]), 'as': rng.choice(['rerr', 'bad_rerr'])}
        if plan_mode == 'reorder' or k < 0.7:
          act = {'delay': rng.choice([0.0005, 0.002, 0.01, 0.05]) * (0.3 + rng.random())}
          if chunked and rng.random() < 0.5:
            # the reply reaches the client in several segments (cut inside the header as well)
            act['chunks'] = [(rng.randint(1, 9), rng.choice([0.0, 0.0005, 0.003])) for _ in range(rng.randint(1, 4))]
          return act
        if k < 0.85:
          return {'delay': rng.choice([0.3, 1.5])}       # later than the short timeouts
        return {'drop': True}
    w = StackWorld(env, rng, kind='mux', n_eps=n_eps, balancer=rng.choice(['aperture', 'heap']), timeout=5.0,
                   client_id=rng.choice([None, 'c']), policy=Policy(),
                   resurrector={'initial_wait_interval': 1.5, 'max_wait_interval': 5, 'backoff_exponent': 1.2})
    stall = rng.random() < 0.3
    if stall:
      for s in w.servers:
        s.sim.send_delay = lambda conn: rng.choice([0.0, 0.0, 0.05, 0.2])
    if idx % 4 == 2:
      # sockets whose send() takes only part of a buffer (little free space in the kernel buffer, frames
      # larger than it): every request must still arrive whole, under the tag leased for it
      classes.add('short-sends')
      lim_ = rng.choice([1, 7, 40, 150])
      for s in w.servers:
        s.sim.send_limit = lim_
    adv_classes = set()
    issued = 0
    reopens = 0

    def inject():
      s = rng.choice(w.servers)
      live = [c for c in s.sim.conns if not c.client_closed and not c.server_closed]
      if not live:
        return
      conn = live[-1]
      seen = [q['tag'] for q in s.requests if q['conn'] == conn.id]
      hi = max(seen or [1])
      k = rng.choice(['duplicate-reply', 'unknown-tag', 'reserved-tag-1', 'tag-0', 'huge-tag', 'bitflip-tag', 'rdiscarded'])
      if k == 'rdiscarded':
        # acknowledgements of discards (Rdiscarded, type -66) that name a reserved tag, a tag never issued, or a
        # tag that was answered (and possibly leased again) already
        adv_classes.add(k)
        classes.add('adv:' + k)
        t = rng.choice([0, 1, hi + rng.choice([1, 2, 40])] + seen[-4:])
        conn.write(mc.frame(-66, t), rng.random() * 0.005, None, 'adv:%d' % t)
        return
      adv_classes.add(k)
      classes.add('adv:' + k)
      body = mc.rdispatch_body(mc.ST_ERROR, [], b'adversarial')
      if k == 'duplicate-reply' and seen:
        t = rng.choice(seen[-5:])
        conn.write(mc.frame(mc.R_DISPATCH, t, body), rng.random() * 0.01, None, 'adv:%d' % t)
      elif k == 'unknown-tag':
        t = hi + rng.choice([1, 1, 2, 3])
        conn.write(rng.choice([mc.frame(mc.R_DISPATCH, t, body), mc.rerr(t, b'nope')]), 0.0, None, 'adv:%d' % t)
      elif k == 'reserved-tag-1':
        conn.write(rng.choice([mc.rerr(1, b'bad'), mc.frame(mc.R_DISPATCH, 1, body), mc.rerr(1, b'x', bad=True)]),
                   0.0, None, 'adv:1')
      elif k == 'tag-0':
        conn.write(mc.rerr(0, b'zero'), 0.0, None, 'adv:0')
      elif k == 'bitflip-tag':
        # a never-issued tag that differs from a recent (possibly unanswered) one in one high bit
        t = rng.choice(seen[-8:] or [2]) | (1 << rng.choice([23, 23, 22, 20, 16, 12]))
        conn.write(rng.choice([mc.frame(mc.R_DISPATCH, t, body), mc.rerr(t, b'flip')]), rng.random() * 0.005, None,
                   'adv:%d' % t)
      else:
        t = rng.choice([MAXTAG + 1, MAXTAG, 1 << 23])
        conn.write(mc.rerr(t, b'huge'), 0.0, None, 'adv:%d' % t)

    paused = [False]
    while issued < ncalls:
      burst = rng.randint(1, conc)
      for _ in range(min(burst, ncalls - issued)):
        T = rng.choice([0.03, 0.1, 5.0, 5.0]) if plan_mode != 'fast' or stall else 5.0
        w.call('echo', None, timeout=T)
        issued += 1
      env.advance(rng.choice([0.001, 0.01, 0.05, 0.2]) * rng.random())
      if idx % 5 == 3 and not paused[0] and issued >= ncalls // 2:
        # a lull long enough for the transport's keep-alive ping (every 30-40 s) to go out between requests
        paused[0] = True
        classes.add('keepalive-ping-between-requests')
        env.advance(41.0)
      if adversarial and rng.random() < 0.4:
        inject()
      if rng.random() < 0.03:
        s = rng.choice(w.servers)
        for c in s.sim.conns:
          if not c.client_closed:
            c.close_by_server(rng.choice(['fin', 'rst']))
        reopens += 1
        classes.add('re-open')
        env.advance(rng.choice([0.5, 2.0, 4.0]))
    env.advance(8.0)
    facts = {'transport': 'thriftmux', 'adversarial': sorted(adv_classes)}
    maxtag, reuse = self._monitor(env, out, None, 'srv.frame', facts, start=ev_start)
    if reuse:
      classes.add('tag-reuse')
    # timeouts before / after transmission
    sent_cids = set()
    for s in w.servers:
      for q in s.requests:
        a0 = q['call'][1][0] if q.get('call') and q['call'][1] else ''
        if isinstance(a0, str) and a0.startswith('c'):
          sent_cids.add(int(a0[1:a0.index('-')]))
    n_to = 0
    for r in w.calls:
      if r['completions'] and isinstance(r['completions'][0]['payload'], ScalesTimeout):
        n_to += 1
        classes.add('timeout-after-send' if r['cid'] in sent_cids else 'timeout-before-send')
    # bounded consumption: highest tag <= 1 + peak over time of the tags that may legitimately
    # be held: calls issued and not completed; timed-out calls whose request was written, until
    # the peer's answer to that tag has been read; timed-out calls not (yet) written, until a
    # request issued later appears on the wire (the FIFO send loop has dropped them by then).
    req_of = {}
    for s_ in w.servers:
      for q in s_.requests:
        a0 = q['call'][1][0] if q.get('call') and q['call'][1] else ''
        if isinstance(a0, str) and a0.startswith('c'):
          req_of.setdefault(int(a0[1:a0.index('-')]), q)
    # per transport instance: the FIFO send queue (and the tag pool) is per connection
    first_written_after = {}      # transport -> [(issue_seq, written_seq)] of every written call
    for r in w.calls:
      q = req_of.get(r['cid'])
      if q is not None:
        wtag, wseq = self.written.get((q['conn'], q['start']), (None, None))
        if wseq is not None:
          first_written_after.setdefault(self.route.get(r['cid']), []).append((r['issue_seq'], wseq))
    INF = float('inf')
    evs = []
    for r in w.calls:
      evs.append((r['issue_seq'], +1))
      if not r['completions']:
        continue
      c0 = r['completions'][0]
      release = c0['seq']
      if isinstance(c0['payload'], ScalesTimeout):
        q = req_of.get(r['cid'])
        wtag, wseq = self.written.get((q['conn'], q['start']), (None, None)) if q is not None else (None, None)
        if wseq is not None:
          ans = [sq for (c_, t_, sq) in self.answered if c_ == q['conn'] and t_ == q['tag'] and sq > wseq]
          release = max(release, min(ans)) if ans else INF
        else:
          tid = self.route.get(r['cid'])
          if tid is None:
            release = c0['seq']     # never reached a transport: never held a tag
          else:
            later = [ws for (isq, ws) in first_written_after.get(tid, ())
                     if isq > r['issue_seq'] and ws > c0['seq']]
            release = min(later) if later else INF
      if release != INF:
        evs.append((release, -1))
    peak = cur = 0
    for _, d in sorted(evs, key=lambda x: (x[0], -x[1])):
      cur += d
      peak = max(peak, cur)
    out.obligations += 1
    hi = max(maxtag.values() or [1])
    if hi > self.tag_base + peak:
      out.violate('tag:unbounded-consumption', 'highest tag %d after %d calls; at most %d tags could be held at any '
                  'time (calls in flight + timed-out requests not yet answered or dropped)%s' % (
                    hi, len(w.calls), peak, '; the pools of this case start handing out tags at %d' % (self.tag_base + 1) if self.tag_base > 1 else ''),
                  facts, {'maxtag_per_conn': maxtag, 'timeouts': n_to})
    out.obligations += 1
    if self.contract_failures:
      f = self.contract_failures[0]
      out.violate('contract:' + f[0], 'TagPool contract broken: %s tag %r (leased: %r...)' % f, facts,
                  {'failures': self.contract_failures[:5]})
      del self.contract_failures[:]
    for s in w.servers:
      for bf in s.bad_frames:
        out.violate('bad-frame', 'server could not decode client bytes: %r' % (bf,), facts)
    w.close()
    env.advance(0.5)
    nreq = sum(len(s.requests) for s in w.servers)
    out.classes = sorted(classes)
    out.nontrivial = nreq >= 10
    out.extra = {'requests_decoded': nreq, 'max_tag': hi, 'peak_leased_bound': peak, 'timeouts': n_to,
                 'reopens': reopens, 'tag_reuses': reuse, 'diag_greenlet_errors': len(env.errors)}
    out.sig = ('thriftmux', sorted(adv_classes), sorted(c for c in classes if c.startswith('timeout')), min(reopens, 2),
               conc, plan_mode, stall)
    if idx % 23 == 0:
      out.sample = {'transport': 'thriftmux', 'calls': len(w.calls), 'concurrency': conc, 'adversarial': sorted(adv_classes),
                    'max_tag_per_connection': {str(k): v for k, v in maxtag.items()}, 'peak_bound': peak,
                    'first_tags': [q['tag'] for q in w.servers[0].requests[:24]]}

  def _kafka(self, env, rng, idx, tier, out):
    import gevent
    from scales.asynchronous import AsyncResult
    from scales.constants import MessageProperties, SinkProperties
    from scales.dispatch import _AsyncResponseSink
    from scales.kafka.sink import KafkaEndpoint, KafkaSerializerSink, KafkaTransportSink
    from scales.message import Deadline, MethodCallMessage
    from scales.sink import ClientMessageSinkStack, TimeoutSinkProvider
    from vlib import kafkacodec as kc, servers
    from vlib.stackworld import get_net, _PORT
    classes = {'kafka'}
    net = get_net(env)
    net.reset()
    _PORT[0] += 1
    port = _PORT[0]
    adversarial = rng.random() < 0.6

    with_timeouts = rng.random() < 0.5

    class Policy(servers.DefaultPolicy):
      def __call__(self, server, conn, req):
        if with_timeouts and rng.random() < 0.3:
          return {'delay': rng.choice([0.04, 0.08, 0.3])}     # later than the short deadlines
        return {'delay': rng.choice([0.0005, 0.002, 0.02]) * (0.3 + rng.random())}
    broker = servers.KafkaBroker(net, 'kb', port, Policy())
    # frame events for the monitor
    orig_on_data = broker.on_data

    def on_data(conn):
      n0 = len(broker.requests)
      orig_on_data(conn)
      for q in broker.requests[n0:]:
        env.emit('kafka.frame', conn=conn.id, tag=q['kafka']['correlation_id'], type=2, start=q['start'], end=q['end'])
    broker.on_data = on_data
    tp = KafkaTransportSink.Builder()
    sp = KafkaSerializerSink.Builder()
    sp.next_provider = tp
    ep = KafkaEndpoint('kb', port, 0)
    tprov = TimeoutSinkProvider()
    tprov.next_provider = sp
    sink = tprov.CreateSink({SinkProperties.Endpoint: ep, SinkProperties.Label: 'kafka'})
    if with_timeouts:
      classes.add('kafka:timeouts')
    try:
      sink.Open().get(timeout=5)
    except Exception as e:  # noqa
      out.violate('kafka:open-failed', repr(e), {'transport': 'kafka'})
      return
    adv_classes = set()
    ars = []
    ncalls = rng.choice([20, 60, 120])
    conc = rng.choice([1, 4, 16])
    issued = 0
    while issued < ncalls:
      for _ in range(min(rng.randint(1, conc), ncalls - issued)):
        msg = MethodCallMessage(None, 'Put', (b't', [b'p%d' % issued], 1), {})
        msg.properties[MessageProperties.Endpoint] = ep
        if with_timeouts:
          msg.properties[Deadline.KEY] = env.now + rng.choice([0.01, 0.03, 2.0, 2.0])
        ar = AsyncResult()
        st = ClientMessageSinkStack()
        st.Push(_AsyncResponseSink(), (None, 0, ar, msg.properties))
        gevent.spawn(sink.AsyncProcessRequest, st, msg, None, {})
        ars.append(ar)
        issued += 1
      env.advance(rng.choice([0.001, 0.01, 0.05]) * rng.random())
      if adversarial and rng.random() < 0.4 and broker.sim.conns:
        conn = broker.sim.conns[-1]
        seen = [q['kafka']['correlation_id'] for q in broker.requests]
        hi = max(seen or [1])
        k = rng.choice(['duplicate-reply', 'unknown-tag', 'reserved-tag-1', 'tag-0'])
        adv_classes.add(k)
        classes.add('adv:' + k)
        t = {'duplicate-reply': rng.choice(seen[-3:] or [2]), 'unknown-tag': hi + rng.choice([1, 2]),
             'reserved-tag-1': 1, 'tag-0': 0}[k]
        conn.write(kc.response(t, kc.produce_response_body([(b't', [(0, 0, 1)])])), 0.0, None, 'adv:%d' % t)
    env.advance(2.0)
    facts = {'transport': 'kafka', 'adversarial': sorted(adv_classes)}
    maxtag, reuse = self._monitor(env, out, None, 'kafka.frame', facts)
    if reuse:
      classes.add('tag-reuse')
    out.obligations += 1
    hi = max(maxtag.values() or [1])
    if hi > 1 + conc + 1 and not adv_classes:
      pass
    if self.contract_failures:
      f = self.contract_failures[0]
      out.violate('contract:' + f[0], 'TagPool contract broken: %s tag %r (leased: %r...)' % f, facts,
                  {'failures': self.contract_failures[:5]})
      del self.contract_failures[:]
    sink.Close()
    env.advance(0.2)
    out.classes = sorted(classes)
    out.nontrivial = len(broker.requests) >= 10
    out.extra = {'requests_decoded': len(broker.requests), 'max_tag': hi, 'tag_reuses': reuse}
    out.sig = ('kafka', sorted(adv_classes), conc, ncalls)


CHECK = C11()
