"""C18 - metrics are neither lost, duplicated nor split across equal sources."""
from vlib.framework import BaseCheck, CaseResult


class C18(BaseCheck):
  ID = 'C18'
  RULE = ('case = random sequence (20-400 ops) of counter/rate/aggregate-timer increments (incl. zero, negative and fractional amounts), gauge sets '
          'and percentile samples issued through freshly constructed Sources drawn from a small pool '
          'of field tuples (so equal-but-distinct Source objects abound; in every 3rd case a third of them are instances of a subclass of Source), checked against a dict keyed '
          'by the field tuple: per-service aggregates == sums, gauge == last value per tuple, number of '
          'series <= number of distinct tuples; a fifth of the counter / gauge updates go to a second metrics class with the same short names under another base name, judged separately; single-source sample streams of sizes around the '
          '1000-sample reservoir (constant/sorted/random/heavy-tailed): reported percentiles within '
          '[min,max] of the retained samples and non-decreasing; every 4th case also runs N calls '
          'through a real Thrift client on the simulated network and checks the dispatcher/socket '
          'metrics the same way. non-trivial = at least two equal-but-distinct sources were used; '
          'distinct by (metric kinds used, #tuples, stream class, full-stack?)')
  ANCHORS = ('scales.varz:VarzReceiver.IncrementVarz', 'scales.varz:VarzReceiver.SetVarz',
             'scales.varz:VarzReceiver.RecordPercentileSample', 'scales.varz:VarzAggregator.Aggregate',
             'scales.varz:VarzAggregator.CalculatePercentile')
  REQUIRED_ANCHORS = ANCHORS
  REQUIRED_CLASSES = ('counter', 'gauge', 'percentile:below-reservoir', 'percentile:above-reservoir',
                      'full-stack', 'percentile:busy-after-full', 'zero-increment', 'fractional-increment',
                      'overlapping-measure', 'gauge:persistent-objects', 'percentile:second-aggregation',
                      'sibling-class-same-short-name', 'source-subclass', 'client-id:equal-not-identical', 'percentile:idle-siblings', 'percentile:aggregation-spans-clock-ticks', 'objects-bound-before-reset', 'percentile:idle-service-listed-after-a-live-one', 'aggregated-per-endpoint-first', 'recording-during-aggregation')
  ASSUMPTIONS = ('percentile bounds allow 1e-9 relative slack for the linear interpolation',)
  QUICK_CASES = 720
  THOROUGH_CASES = 40000
  QUICK_WALL = 180
  THOROUGH_WALL = 1800
  MIN_DISTINCT = 10

  def setup(self, env, tier):
    from scales.varz import VarzBase, Counter, Rate, Gauge, AverageTimer, AggregateTimer, AverageRate

    class V(VarzBase):
      _VARZ_BASE_NAME = 'verif.c18'
      _VARZ = {'cnt': Counter, 'rate': Rate, 'agg': AggregateTimer, 'g': Gauge, 'lat': AverageTimer,
               'sz': AverageRate, 'agg2': AggregateTimer}
    self.V = V

    class W(VarzBase):      # another component's metrics: same short names, same kinds, another base name
      _VARZ_BASE_NAME = 'verif.c18w'
      _VARZ = {'cnt': Counter, 'g': Gauge, 'lat': AverageTimer}
    self.W = W
    from vlib import simnet
    self.net = simnet.Network(env)
    self.net.install()
    self.port = 31000

  def run_case(self, env, rng, idx, tier):
    from scales.varz import Source, VarzReceiver, VarzAggregator
    out = CaseResult()
    classes = set()
    V = self.V
    services = ['svcA', 'svcB'][:rng.randint(1, 2)]
    tuples = []
    for _ in range(rng.randint(1, 6)):
      tuples.append((rng.choice([None, 'm1', 'm2']), rng.choice(services),
                     rng.choice([None, 'h1:1', 'h2:2']), rng.choice([None, None, 'cid'])))
    tuples = list(dict.fromkeys(tuples))
    # metric objects of long-lived owners (sinks, pools) that were bound before the receiver's tables were
    # reset and keep recording afterwards: what they record counts like anything else recorded since
    early = {}
    if idx % 4 == 2:
      classes.add('objects-bound-before-reset')
      for t_ in tuples:
        early[t_] = V(Source(method=t_[0], service=t_[1], endpoint=t_[2], client_id=t_[3]))
        early[t_].cnt(3)        # (recorded before the reset: gone with it)
    VarzReceiver.VARZ_DATA.clear()
    model_sum = {}    # (metric, tuple) -> sum
    model_gauge = {}  # tuple -> last
    used = {}         # metric -> set(tuples)
    fresh_uses = {}
    kinds_used = set()
    persistent = {}
    nops = rng.choice([20, 60, 150, 400])
    sub_case = idx % 3 == 1

    def fresh(cid):
      # client ids come from configuration at run time: equal strings, not one shared object
      if cid is None:
        return None
      classes.add('client-id:equal-not-identical')
      return cid[:1] + cid[1:]

    class SubSource(Source):
      pass
    for _ in range(nops):
      t = rng.choice(tuples)
      src = Source(method=t[0], service=t[1], endpoint=t[2], client_id=fresh(t[3]))   # fresh object each time
      if sub_case and rng.random() < 0.3:
        # an application's convenience subclass of Source: same four fields, so the same source
        src = SubSource(method=t[0], service=t[1], endpoint=t[2], client_id=fresh(t[3]))
        classes.add('source-subclass')
      fresh_uses[t] = fresh_uses.get(t, 0) + 1
      k = rng.choice(['cnt', 'rate', 'agg', 'g', 'cnt-class', 'g'])
      if k in ('cnt', 'g') and rng.random() < 0.2:
        # the same short metric name on another component, through an equal source
        classes.add('sibling-class-same-short-name')
        if k == 'cnt':
          amt = rng.choice([1, 2, 5, 7])
          self.W(src).cnt(amt)
          model_sum[('w:cnt', t)] = model_sum.get(('w:cnt', t), 0) + amt
        else:
          val = rng.randint(200, 300)
          self.W(src).g(val)
          model_gauge[('w', t)] = val
        used.setdefault('w:' + k, set()).add(t)
        continue
      if k == 'cnt':
        amt = rng.choice([1, 1, 2, 5, 0, -1, 0.25, 2.5])     # fractions exactly representable: sums are exact
        if amt == 0:
          classes.add('zero-increment')
        if amt != int(amt):
          classes.add('fractional-increment')
        obj_ = early[t] if t in early and rng.random() < 0.4 else V(src)
        obj_.cnt(amt) if amt != 1 else obj_.cnt()
        model_sum[('cnt', t)] = model_sum.get(('cnt', t), 0) + amt
        used.setdefault('cnt', set()).add(t)
        kinds_used.add('counter')
      elif k == 'cnt-class':
        amt = rng.randint(-1, 3)
        V.cnt(src, amt)
        model_sum[('cnt', t)] = model_sum.get(('cnt', t), 0) + amt
        used.setdefault('cnt', set()).add(t)
        kinds_used.add('counter')
      elif k == 'rate':
        amt = rng.choice([1, 1, 1, 3, 0.5, 1.25])
        if amt != int(amt):
          classes.add('fractional-increment')
        obj_ = early[t] if t in early and rng.random() < 0.4 else V(src)
        obj_.rate(amt) if amt != 1 else obj_.rate()
        model_sum[('rate', t)] = model_sum.get(('rate', t), 0) + amt
        used.setdefault('rate', set()).add(t)
        kinds_used.add('rate')
      elif k == 'agg':
        amt = rng.choice([0.5, 0.25, 2.0, 8.0, 0.0])   # exactly representable: sums are exact
        (early[t] if t in early and rng.random() < 0.4 else V(src)).agg(amt)
        model_sum[('agg', t)] = model_sum.get(('agg', t), 0) + amt
        used.setdefault('agg', set()).add(t)
        kinds_used.add('timer')
      else:
        val = rng.choice([rng.randint(-5, 100), rng.randint(0, 3)])    # small values repeat often
        if rng.random() < 0.6:
          # long-lived metric objects (two per tuple, as two pools/balancers for one endpoint have)
          which = (t, rng.randint(0, 1))
          if which not in persistent:
            persistent[which] = V(src)
          persistent[which].g(val)
          classes.add('gauge:persistent-objects')
        elif rng.random() < 0.5:
          V.g(src, val)
        else:
          V(src).g(val)
        model_gauge[t] = val
        used.setdefault('g', set()).add(t)
        kinds_used.add('gauge')
    classes |= kinds_used
    # ---------------- timed blocks (Measure) that overlap in time on one timer object, in its
    # bound form (one Varz instance shared by several greenlets) and its class-level form
    want_timed = {}
    if env is not None and rng.random() < 0.4:
      import gevent
      classes.add('overlapping-measure')
      t0 = rng.choice(tuples)
      shared = V(Source(method=t0[0], service=t0[1], endpoint=t0[2], client_id=fresh(t0[3])))
      blocks = []
      for _ in range(rng.randint(2, 5)):
        form = rng.choice(['bound', 'class'])
        t = t0 if form == 'bound' else rng.choice(tuples)
        d = rng.choice([0.25, 0.5, 1.0, 2.0, 4.0])
        blocks.append((form, t, d, rng.choice([0.0, 0.0, 0.125, 0.5, 1.5])))
        want_timed[(t[1], t[3])] = want_timed.get((t[1], t[3]), 0.0) + d

      def block(form, t, d, delay):
        gevent.sleep(delay)
        if form == 'bound':
          cm = shared.agg2.Measure()
        else:
          cm = V.agg2.Measure(Source(method=t[0], service=t[1], endpoint=t[2], client_id=fresh(t[3])))
        with cm:
          gevent.sleep(d)
      gs = [gevent.spawn(block, *b) for b in blocks]
      env.advance(7.0)
      out.obligations += 1
      if not all(g.ready() for g in gs):
        out.violate('measure:block-stuck', 'a timed block did not finish', {})
    if idx % 6 == 5 and env is not None:
      # a recorder keeps working while the aggregation is parked at its per-metric yields: each round it records
      # against a source that has no series yet and then against a known one.  The per-service total reported
      # is the total at SOME instant of that update sequence (nothing recorded before that instant is missing
      # while something recorded after it is counted)
      import gevent
      classes.add('recording-during-aggregation')
      svc_ = 'pcon%d' % idx
      V(Source('m', svc_, 'h-known:1', None)).cnt(5)
      totals_ = [5]
      stop_rec = [False]

      def recorder():
        k_ = 0
        while not stop_rec[0] and k_ < 60:
          k_ += 1
          V(Source('m', svc_, 'h-new:%d' % k_, None)).cnt(1)
          totals_.append(totals_[-1] + 1)
          V(Source('m', svc_, 'h-known:1', None)).cnt(10)
          totals_.append(totals_[-1] + 10)
          gevent.sleep(0)
      g_rec = gevent.spawn(recorder)
      agg_c = VarzAggregator.Aggregate(VarzReceiver.VARZ_DATA, VarzReceiver.VARZ_METRICS)
      stop_rec[0] = True
      g_rec.join(timeout=1)
      out.obligations += 1
      got_c = agg_c.get('verif.c18.cnt', {}).get((svc_, None))
      if got_c is None or got_c.total not in totals_:
        out.violate('aggregate:sum', 'verif.c18.cnt for %r reported as %r while a recorder was adding 1 (new source) and 10 (known '
                    'source) per round during the aggregation: the totals over that update sequence were %r...' % (
                      (svc_, None), got_c and got_c.total, totals_[:7]), {'metric_kind': 'cnt', 'view': 'during-aggregation'})
    if idx % 5 == 1:
      # another view of the same tables is taken first (a per-endpoint breakdown, through the documented
      # key_selector argument): it is judged against the same increments, and leaves the per-service view alone
      classes.add('aggregated-per-endpoint-first')
      per_ep = VarzAggregator.Aggregate(VarzReceiver.VARZ_DATA, VarzReceiver.VARZ_METRICS, lambda s_: (s_.service, s_.endpoint))
      by_ep = {}
      for (short_, t_), v_ in model_sum.items():
        if not short_.startswith('w:'):
          by_ep[(short_, t_[1], t_[2])] = by_ep.get((short_, t_[1], t_[2]), 0) + v_
      for (short_, svc_, ep_), want_ in by_ep.items():
        out.obligations += 1
        got_ = per_ep.get('verif.c18.' + short_, {}).get((svc_, ep_))
        if got_ is None or got_.total != want_:
          out.violate('aggregate:sum', 'verif.c18.%s aggregated per (service, endpoint): %r reads %r, increments sum to %r' % (
            short_, (svc_, ep_), got_ and got_.total, want_), {'metric_kind': short_, 'view': 'per-endpoint'})
    agg = VarzAggregator.Aggregate(VarzReceiver.VARZ_DATA, VarzReceiver.VARZ_METRICS)
    for key, want in want_timed.items():
      out.obligations += 1
      got = agg.get('verif.c18.agg2', {}).get(key)
      if got is None or abs(got.total - want) > 1e-4:
        out.violate('aggregate:timed-blocks', 'overlapping Measure() blocks for %r lasted %.3f s in total, the aggregate '
                    'timer reports %r' % (key, want, got and got.total), {'metric_kind': 'agg2'})
    equal_distinct = any(v >= 2 for v in fresh_uses.values())
    for short in ('cnt', 'rate', 'agg', 'g', 'w:cnt', 'w:g'):
      metric = 'verif.c18.' + short if short[:2] != 'w:' else 'verif.c18w.' + short[2:]
      ts = used.get(short, set())
      if not ts:
        continue
      series = VarzReceiver.VARZ_DATA.get(metric, {})
      n_series = sum(1 for k_ in series if not str(getattr(k_, 'service', '')).startswith('pcon'))    # (the concurrent recorder's own sources aside)
      out.obligations += 1
      if n_series > len(ts):
        out.violate('series:split', '%s has %d series for %d distinct (method, service, endpoint, client id) '
                    'tuples after %d updates' % (metric, n_series, len(ts), nops),
                    {'metric_kind': short}, {'tuples': sorted(map(repr, ts))})
      # per (service, client_id) aggregate
      by_key = {}
      for t in ts:
        key = (t[1], t[3])
        v = model_gauge[t] if short == 'g' else model_gauge[('w', t)] if short == 'w:g' else model_sum[(short, t)]
        by_key[key] = by_key.get(key, 0) + v
      for key, want in by_key.items():
        out.obligations += 1
        got = agg.get(metric, {}).get(key)
        if short in ('g', 'w:g'):
          # a gauge reports the last value set: judged per series through a fresh equal Source
          continue
        if got is None or got.total != want:
          out.violate('aggregate:sum', '%s for %r aggregated to %r, increments sum to %r' % (
            metric, key, got and got.total, want), {'metric_kind': short})
      if short in ('g', 'w:g'):
        for t in ts:
          out.obligations += 1
          probe = Source(method=t[0], service=t[1], endpoint=t[2], client_id=fresh(t[3]))
          got = series.get(probe, 'MISSING') if hasattr(series, 'get') else 'MISSING'
          want_g = model_gauge[t] if short == 'g' else model_gauge[('w', t)]
          if got != want_g:
            out.violate('gauge:last-value', 'gauge %s for %r reads %r through an equal source, last value set %r'
                        % (metric, t, got, want_g), {'metric_kind': short})
    # ---------------- percentiles, single source
    stream_cls = rng.choice(['constant', 'sorted', 'random', 'heavy', 'negative'])
    size = rng.choice([1, 2, 3, 10, 999, 1000, 1001, 1500, 3000])
    classes.add('percentile:below-reservoir' if size <= 1000 else 'percentile:above-reservoir')
    same_object = rng.random() < 0.5
    pt = ('pm', 'psvc%d' % idx, 'ph:1', None)
    the_src = Source(*pt)
    metric = 'verif.c18.' + rng.choice(['lat', 'sz'])
    quiet_pt = None
    if idx % 6 == 4:
      # two more services use the same metric: one keeps recording, the other (listed after it in the
      # receiver's table) recorded a few samples and has been idle for more than five minutes since
      classes.add('percentile:idle-service-listed-after-a-live-one')
      live_src = Source('pm', 'plive%d' % idx, 'ph:1', None)
      quiet_pt = ('pm', 'pquiet%d' % idx, 'ph:1', None)
      VarzReceiver.RecordPercentileSample(live_src, metric, 100.0 + rng.random() * 100)
      quiet_samples = [1.0 + rng.random() * 4 for _ in range(rng.randint(1, 5))]
      for v_ in quiet_samples:
        VarzReceiver.RecordPercentileSample(Source(*quiet_pt), metric, v_)
      for _m in range(6):
        env.advance(60.0)
        VarzReceiver.RecordPercentileSample(live_src, metric, 100.0 + rng.random() * 100)
    if size <= 10 and idx % 2 == 1:
      # other endpoints of the same service recorded samples long ago and have been idle for more than
      # five minutes since: only the live source's samples may shape what is reported for the service
      classes.add('percentile:idle-siblings')
      for j in range(rng.choice([1, 3, 6])):
        sib = Source('pm', pt[1], 'ph-idle:%d' % j, None)
        for _k in range(rng.randint(1, 4)):
          VarzReceiver.RecordPercentileSample(sib, metric, 50000.0 + rng.random())
      for _m in range(6):
        env.advance(60.0)
    for i in range(size):
      if stream_cls == 'constant':
        v = 3.25
      elif stream_cls == 'sorted':
        v = i * 0.5
      elif stream_cls == 'random':
        v = rng.random() * 100
      elif stream_cls == 'heavy':
        v = rng.paretovariate(1.1)
      else:
        v = -rng.random() * 10
      s = the_src if same_object else Source(*pt)
      VarzReceiver.RecordPercentileSample(s, metric, v)
    if size > 1000 and rng.random() < 0.5:
      # the source stays busy for several more (virtual) minutes after its reservoir filled
      classes.add('percentile:busy-after-full')
      for _ in range(rng.choice([330, 660])):
        env.advance(1.0)
        s = the_src if same_object else Source(*pt)
        VarzReceiver.RecordPercentileSample(s, metric, rng.random() * 100 if stream_cls != 'negative' else -rng.random())
    def aggregate_and_judge(round_):
      agg = VarzAggregator.Aggregate(VarzReceiver.VARZ_DATA, VarzReceiver.VARZ_METRICS)
      series = VarzReceiver.VARZ_DATA.get(metric, {})
      mine = [(k, v) for k, v in series.items() if k.to_tuple() == pt]
      out.obligations += 1
      if len(mine) != 1:
        out.violate('series:split', 'percentile metric %s has %d series for one source after %d samples' % (
          metric, len(mine), size), {'metric_kind': 'percentile'})
      else:
        data = list(mine[0][1].data)
        lo, hi = min(data), max(data)
        slack = 1e-9 * max(abs(lo), abs(hi), 1.0)
        tot = agg[metric][(pt[1], pt[3])].total
        pcts = tot[1:]
        out.obligations += 2
        if any(p < lo - slack or p > hi + slack for p in pcts):
          out.violate('percentile:out-of-range', 'percentiles %r outside retained [%r, %r] (%s, %d samples, aggregation #%d)' % (
            pcts, lo, hi, stream_cls, size, round_), {'stream': stream_cls, 'round': round_})
        if any(b < a - slack for a, b in zip(pcts, pcts[1:])):
          out.violate('percentile:decreasing', 'percentiles %r decrease (%s, %d samples)' % (pcts, stream_cls, size),
                      {'stream': stream_cls, 'round': round_})
        if len(data) > 1000:
          out.violate('percentile:reservoir', 'reservoir holds %d samples' % len(data), {})
      if quiet_pt is not None:
        # the idle single-source service: nothing recent to report (all zeros), or else figures from its own samples
        out.obligations += 1
        tot_q = agg.get(metric, {}).get((quiet_pt[1], quiet_pt[3]))
        if tot_q is not None and any(tot_q.total) and any(
            p < min(quiet_samples) - 1e-9 or p > max(quiet_samples) + 1e-9 for p in tot_q.total[1:]):
          out.violate('percentile:out-of-range', 'the idle service of metric %s reports percentiles %r, its only source retains samples in '
                      '[%r, %r]' % (metric, tot_q.total[1:], min(quiet_samples), max(quiet_samples)),
                      {'stream': 'idle-service', 'round': round_})
    aggregate_and_judge(1)
    if rng.random() < 0.5:
      # the same live series is aggregated again after more samples were recorded within the
      # same tick of the low-resolution clock (no virtual time passes), from a shifted distribution
      classes.add('percentile:second-aggregation')
      for _ in range(rng.choice([1, 50, 1200, 3000])):
        s = the_src if same_object else Source(*pt)
        VarzReceiver.RecordPercentileSample(s, metric, 1000.0 + rng.random() * 10)
      aggregate_and_judge(2)
    if idx % 5 == 2:
      # an aggregation that takes its time (every metric costs CPU; Aggregate yields between metrics)
      # while the source stays busy: the one-second low-resolution clock ticks in the middle of it and
      # samples recorded then carry a later stamp than the instant the aggregation started at
      import gevent
      import scales.varz as varz_mod
      classes.add('percentile:aggregation-spans-clock-ticks')
      stop_ = [False]

      def sampler():
        while not stop_[0]:
          s_ = the_src if same_object else Source(*pt)
          VarzReceiver.RecordPercentileSample(s_, metric, 2000.0 + rng.random())
          gevent.sleep(0.3)
      g_s = gevent.spawn(sampler)
      env.advance(1.5)
      for _b in range(400):     # (a full reservoir keeps one new sample in ten: enough of them that it has just been refreshed)
        VarzReceiver.RecordPercentileSample(the_src if same_object else Source(*pt), metric, 2000.0 + rng.random())

      class _SlowGevent(object):
        def __getattr__(self, name):
          return getattr(gevent, name)

        @staticmethod
        def sleep(t=0):
          env.clock.now += 0.4          # what the metric just aggregated cost
          return gevent.sleep(t)
      orig_g = varz_mod.gevent
      varz_mod.gevent = _SlowGevent()
      try:
        aggregate_and_judge(3)
      finally:
        varz_mod.gevent = orig_g
        stop_[0] = True
      env.advance(0.5)
      g_s.kill(block=False)
    # ---------------- full stack
    full = idx % 4 == 0
    if full:
      classes.add('full-stack')
      self._full_stack(env, rng, out)
    out.classes = sorted(classes)
    out.nontrivial = equal_distinct
    out.sig = (sorted(kinds_used), len(tuples), stream_cls, size > 1000, full)
    out.extra = {'updates': nops, 'samples': size}
    if idx % 37 == 0:
      out.sample = {'tuples': [list(t) for t in tuples], 'updates': nops, 'stream': stream_cls, 'samples': size,
                    'series_counts': {m: len(v) for m, v in VarzReceiver.VARZ_DATA.items() if m.startswith('verif')}}
    return out

  def _full_stack(self, env, rng, out):
    from scales.thrift import Thrift
    from scales.varz import VarzReceiver, VarzAggregator
    from vlib import servers
    from vlib.gen.verifsvc import ExtService
    self.net.reset()
    self.port += 1
    servers.ThriftServer(self.net, 'vh', self.port)
    name = 'c18svc%d' % self.port
    client = Thrift.NewBuilder(ExtService.Iface).SetUri('tcp://vh:%d' % self.port).SetName(name) \
      .SetTimeout(5).Build()
    n_ok = rng.randint(1, 30)
    n_err = rng.randint(0, 5)
    for i in range(n_ok):
      client.echo('v%d' % i)
    for i in range(n_err):
      try:
        client.fail('x')
      except Exception:
        pass
    agg = VarzAggregator.Aggregate(VarzReceiver.VARZ_DATA, VarzReceiver.VARZ_METRICS)
    want = {'scales.MessageDispatcher.dispatch_messages': (n_ok + n_err, 2),
            'scales.MessageDispatcher.success_messages': (n_ok, 1),
            'scales.MessageDispatcher.exception_messages': (n_err, 1 if n_err else 0)}
    for metric, (total, max_series) in want.items():
      series = [k for k in VarzReceiver.VARZ_DATA.get(metric, {}) if k.service == name]
      out.obligations += 2
      if len(series) > max_series:
        out.violate('series:split', '%s has %d series after %d calls to one endpoint (<= %d distinct sources)' % (
          metric, len(series), n_ok + n_err, max_series), {'metric_kind': 'dispatcher'})
      got = agg.get(metric, {}).get((name, None))
      if (got.total if got else 0) != total:
        out.violate('aggregate:sum', '%s aggregated to %r after %d matching calls' % (
          metric, got and got.total, total), {'metric_kind': 'dispatcher'})
    lat = 'scales.MessageDispatcher.request_latency'
    series = [k for k in VarzReceiver.VARZ_DATA.get(lat, {}) if k.service == name]
    out.obligations += 1
    if len(series) > 2:
      out.violate('series:split', '%s has %d series after %d calls (2 methods, 1 endpoint)' % (
        lat, len(series), n_ok + n_err), {'metric_kind': 'dispatcher'})
    client.DispatcherClose()
    env.advance(0.01)


CHECK = C18()
