"""C19 - ZooKeeper server set reports exactly the membership changes that occurred.

Real ServerSet + real Kazoo DataWatch/ChildrenWatch recipes over an in-memory
ZooKeeper (vlib/fakezk.py); the consumer's callbacks are owned by the harness."""
import json

from vlib.framework import BaseCheck, CaseResult


class C19(BaseCheck):
  ID = 'C19'
  RULE = ('case = one ServerSet on a watched path over the fake ZooKeeper (read latency 0 / <=3 ms / <=50 ms, '
          'so re-reads race with further changes) and a history of 10-150 mutations: member create/delete '
          '(fresh sequential names), non-member children, bursts without yielding, deletion of the watched '
          'path with its children and later re-creation with the same or different child names, members '
          'vanishing between listing and reading (and coming back under the same name), blips (the path and its '
          'children deleted and back, wholly or partly under the same names, within a read round trip, so an old '
          'children watch survives while the data watch sees the path missing), member restarts (node deleted, '
          'new node with a fresh name and the same endpoint data, in one listing or two; judged through a second '
          'consumer keyed by endpoint, as the load balancers are), consumer callbacks raising (and, in every 6th case, taking 5-31 s) on a '
          'seeded schedule, concurrent '
          'get_members() iterations. At every quiescent point (no watch event pending, no read in flight, '
          'notification queue empty) the consumer\'s set - joins and leaves applied in delivery order - must '
          'equal the members under the path (name and endpoint), and per member joins and leaves must '
          'alternate. non-trivial = at least 3 notifications delivered; distinct by (latency class, op '
          'classes used, parent deletions, callback errors)')
  ANCHORS = ('scales.loadbalancer.zookeeper:ServerSet._on_set_changed',
             'scales.loadbalancer.zookeeper:ServerSet._notification_worker',
             'scales.loadbalancer.zookeeper:ServerSet._data_changed',
             'scales.loadbalancer.zookeeper:ServerSet._send_all_removed',
             'scales.loadbalancer.zookeeper:ServerSet._safe_zk_node_to_member')
  REQUIRED_ANCHORS = ANCHORS
  REQUIRED_CLASSES = ('parent-deleted', 'parent-recreated-same-names', 'parent-recreated-different-names',
                      'callback-raised', 'callback-slow', 'iteration-left-unfinished', 'burst', 'non-member-child', 'path-created-later', 'vanished-before-read', 'fast-recreate',
                      'same-name-recreated', 'blip', 'restart-same-endpoint', 'member-read-fails-in-a-batch',
                      'blip:names-taken-by-other-servers', 'tuple-members')
  ASSUMPTIONS = ('member znodes get fresh sequential names within one incarnation of the watched path (as '
                 'ZooKeeper sequential nodes do); a name is used again only after the path itself was re-created, '
                 'or for a node that was deleted before the client could read it and is registered again with the '
                 'same data (a service with a fixed node name re-registering after a blip)',
                 'member data is well-formed JSON')
  QUICK_CASES = 960
  THOROUGH_CASES = 60000
  QUICK_WALL = 180
  THOROUGH_WALL = 1800
  MIN_DISTINCT = 10

  def run_case(self, env, rng, idx, tier):
    import gevent
    from scales.loadbalancer.zookeeper import ServerSet
    from vlib.fakezk import FakeKazooClient
    out = CaseResult()
    classes = set()
    lat_cls = rng.choice(['zero', 'small', 'small', 'large'])
    zk = FakeKazooClient(env, rng, {'zero': (0.0, 0.0), 'small': (0.0, 0.003), 'large': (0.0, 0.05)}[lat_cls])
    path = '/svc/prod'
    exists_at_start = rng.random() < 0.75
    zk.nodes['/svc'] = [b'', {'czxid': 1, 'mzxid': 1, 'version': 0, 'cversion': 0, 'pzxid': 1}]
    counter = [0]
    port = [9000]

    def member_data():
      port[0] += 1
      return json.dumps({'serviceEndpoint': {'host': 'h%d' % port[0], 'port': port[0]},
                         'additionalEndpoints': {}, 'status': 'ALIVE'}).encode()

    def add_member(name=None):
      if path not in zk.nodes:
        return
      if name is None:
        counter[0] += 1
        name = 'member_%010d' % counter[0]
      zk.create_node(path + '/' + name, member_data())

    if exists_at_start:
      zk.create_node(path)
      for _ in range(rng.choice([0, 1, 3, 6])):
        add_member()
    else:
      classes.add('path-created-later')
    consumer = {}
    by_endpoint = {}
    artificial = set()
    log = []
    raise_p = rng.choice([0.0, 0.0, 0.1, 0.3])
    stats = {'joins': 0, 'leaves': 0, 'callback_errors': 0}
    slow = idx % 6 == 3        # a consumer whose callbacks now and then take several seconds
    busy = [0]

    def maybe_slow():
      if slow and rng.random() < 0.08:
        classes.add('callback-slow')
        busy[0] += 1
        try:
          gevent.sleep(rng.choice([5.5, 8.0, 31.0]))
        finally:
          busy[0] -= 1

    def viol(kind_, msg, facts=None, witness=None):
      f = {'latency': lat_cls}
      f.update(facts or {})
      if len(out.violations) < 6:
        out.violate(kind_, msg, f, witness)

    def on_join(m):
      stats['joins'] += 1
      log.append(('join', m.name, env.now))
      out.obligations += 1
      if m.name in artificial:
        artificial.discard(m.name)      # the harness had put it there when it re-synchronised its model
      elif m.name in consumer:
        viol('alternation:double-join', 'member %s reported as joining twice without a leave in between' % m.name)
      consumer[m.name] = (m.service_endpoint.host, m.service_endpoint.port)
      # a second consumer that, like the load balancers, knows members by their endpoint
      by_endpoint.setdefault(consumer[m.name], m.name)
      maybe_slow()
      if rng.random() < raise_p:
        stats['callback_errors'] += 1
        classes.add('callback-raised')
        raise RuntimeError('consumer on_join failed')

    def on_leave(m):
      stats['leaves'] += 1
      log.append(('leave', m.name, env.now))
      out.obligations += 1
      if m.name not in consumer:
        viol('alternation:double-leave', 'member %s reported as leaving while the consumer does not hold it' % m.name)
      consumer.pop(m.name, None)
      by_endpoint.pop((m.service_endpoint.host, m.service_endpoint.port), None)
      maybe_slow()
      if rng.random() < raise_p:
        stats['callback_errors'] += 1
        classes.add('callback-raised')
        raise RuntimeError('consumer on_leave failed')

    factory = None
    if rng.random() < 0.25:
      # a custom member factory (the constructor's public hook) whose members are plain named tuples
      from collections import namedtuple
      TM = namedtuple('TupleMember', 'name service_endpoint additional_endpoints')
      TE = namedtuple('TupleEndpoint', 'host port')
      classes.add('tuple-members')

      def factory(node, data):
        d_ = json.loads(data)
        return TM(node, TE(d_['serviceEndpoint']['host'], d_['serviceEndpoint']['port']), {})
    ss = ServerSet(zk, path, on_join, on_leave, member_filter=lambda n: n.startswith('member_'), member_factory=factory)

    def truth():
      if path not in zk.nodes:
        return {}
      t = {}
      for p, (data, _) in zk.nodes.items():
        if p.startswith(path + '/') and p[len(path) + 1:].startswith('member_'):
          d = json.loads(data)
          t[p[len(path) + 1:]] = (d['serviceEndpoint']['host'], d['serviceEndpoint']['port'])
      return t

    def quiesce():
      for _ in range(200 if not slow else 3000):
        env.advance(0.12)
        if zk.quiet() and ss._notification_queue.empty() and not busy[0]:
          env.advance(0.12)
          if zk.quiet() and ss._notification_queue.empty() and not busy[0]:
            return True
      return False

    def check(where):
      if not quiesce():
        out.extra['not_quiescent'] = out.extra.get('not_quiescent', 0) + 1
        return
      t = truth()
      out.obligations += 1
      # members the harness itself added to its model after a reported miss were never announced by
      # the code under test, so no leave can be expected for them either
      for n_ in list(artificial):
        if n_ not in t:
          artificial.discard(n_)
          consumer.pop(n_, None)
      if consumer != t:
        missing = sorted(set(t) - set(consumer))
        phantom = sorted(set(consumer) - set(t))
        stale = sorted(k for k in set(t) & set(consumer) if t[k] != consumer[k])
        viol('membership:differs', '%s: consumer holds %d members, %d are present; missing %r, phantom %r, '
             'stale data %r' % (where, len(consumer), len(t), missing[:4], phantom[:4], stale[:4]),
             {'missing': bool(missing), 'phantom': bool(phantom), 'stale': bool(stale),
              'after_parent_delete': 'parent-deleted' in classes, 'unobserved_recreate': unobserved[0],
              'only_recreated_names_missing': bool(missing) and not phantom and not stale and
              all(m_ in recreated for m_ in missing)},
             {'log_tail': log[-10:], 'zk_callback_errors': zk.callback_errors[-3:], 'greenlet_errors': env.errors[-2:]})
        # resynchronise so that later checks judge later behaviour
        artificial.update(missing)
        consumer.clear()
        consumer.update(t)
        by_endpoint.clear()
        by_endpoint.update({v: k_ for k_, v in t.items()})
      elif set(by_endpoint) != set(t.values()):
        # the same notifications applied by a consumer that keys members by endpoint (a member that
        # restarts keeps its endpoint and gets a new node name; the histories here always delete the
        # old node before they create the new one)
        viol('membership:differs-by-endpoint', '%s: a consumer keyed by endpoint holds %r, the endpoints present are %r' % (
          where, sorted(by_endpoint), sorted(t.values())), {'restarts': 'restart-same-endpoint' in classes},
          {'log_tail': log[-10:]})
        by_endpoint.clear()
        by_endpoint.update({v: k_ for k_, v in t.items()})

    fast_recreate = rng.random() < 0.15 and lat_cls != 'zero'
    deleted_at = [None]
    unobserved = [False]
    reused = set()
    recreated = set()      # names that vanished before being read and came back with the same data
    check('after start')
    nops = rng.choice([10, 30, 80, 150])
    saved_names = None
    kept_iterators = []
    for _ in range(nops):
      k = rng.random()
      members = sorted(truth())
      if idx % 4 == 2 and rng.random() < 0.08:
        # the application looks at the server set itself: it takes the first member of an iteration
        # (or none) and keeps the iterator around - whatever it does with it, notifications go on
        classes.add('iteration-left-unfinished')
        g_ = gevent.spawn(lambda: (lambda it: (next(it, None), kept_iterators.append(it)))(iter(ss)))
        g_.join(timeout=5)
      if k < 0.35:
        add_member()
      elif k < 0.6 and members:
        zk.delete_node(path + '/' + rng.choice(members))
      elif k < 0.66 and path in zk.nodes:
        n = 'other_%d' % rng.randint(0, 5)
        if path + '/' + n in zk.nodes:
          zk.delete_node(path + '/' + n)
        else:
          zk.create_node(path + '/' + n, b'x')
        classes.add('non-member-child')
      elif k < 0.685 and path in zk.nodes:
        # several registrations reach the client in one listing and the read of one of them (not the first)
        # fails with a connection loss; the next listing - another registration - has the client read them again
        classes.add('member-read-fails-in-a-batch')
        zk.get_fault_skip, zk.get_faults = 1, 1
        for _i in range(rng.randint(2, 4)):
          add_member()
        for _j in range(60):
          gevent.sleep(max(zk.latency[1], 0.001) * 3)
          if zk.quiet() and ss._notification_queue.empty():
            break
        zk.get_fault_skip, zk.get_faults = 0, 0
        add_member()
        for _j in range(60):
          gevent.sleep(max(zk.latency[1], 0.001) * 3)
          if zk.quiet() and ss._notification_queue.empty():
            break
      elif k < 0.74:
        classes.add('burst')
        for _i in range(rng.randint(2, 8)):
          mm = sorted(truth())
          if rng.random() < 0.5 and mm:
            zk.delete_node(path + '/' + rng.choice(mm))
          else:
            add_member()
      elif k < 0.80 and members:
        # create a member and delete it again before the client can read it
        classes.add('vanished-before-read')
        counter[0] += 1
        nm = path + '/member_%010d' % counter[0]
        data_ = member_data()
        zk.create_node(nm, data_)
        if lat_cls != 'zero':
          gevent.sleep(rng.random() * zk.latency[1] * 0.8)
        zk.delete_node(nm)
        if rng.random() < 0.5:
          # ... and it comes back under the same name with the same data (a service that registers a
          # fixed node name and re-registers after a blip), possibly while the old read is in flight
          classes.add('same-name-recreated')
          if lat_cls != 'zero' and rng.random() < 0.7:
            gevent.sleep(rng.random() * zk.latency[1] * 1.2)
          if path in zk.nodes:
            zk.create_node(nm, data_)
            recreated.add(nm.rsplit('/', 1)[1])
      elif k < 0.88:
        if path in zk.nodes:
          saved_names = sorted(truth())
          zk.delete_node(path, recursive=True)
          classes.add('parent-deleted')
          deleted_at[0] = env.now
          if not fast_recreate:
            check('after the path was deleted')     # the client gets to see the path missing
        else:
          if deleted_at[0] is not None and env.now - deleted_at[0] < 4 * zk.latency[1] + 1e-9:
            unobserved[0] = True                   # re-created within a few round trips
            classes.add('fast-recreate')
          zk.create_node(path)
          if saved_names is not None and rng.random() < 0.5:
            counter[0] = 0       # sequence numbers restart with the new parent
            classes.add('parent-recreated-same-names')
            for nme in saved_names[:rng.randint(0, len(saved_names))] or (['member_%010d' % 1] if rng.random() < 0.5 else []):
              add_member(nme)
              counter[0] = max(counter[0], int(nme.split('_')[1]))
          else:
            if saved_names is not None:
              classes.add('parent-recreated-different-names')
            for _i in range(rng.randint(0, 4)):
              add_member()
      elif k < 0.92:
        g = gevent.spawn(ss.get_members)
        classes.add('concurrent-get-members')
      elif k < 0.96 and path in zk.nodes:
        # a blip: the path and everything below it goes away and is back (wholly or partly under the
        # same names, with the same data) before the client's reads after the deletion complete
        classes.add('blip')
        saved = [(n_, zk.nodes[path + '/' + n_][0]) for n_ in sorted(truth())]
        zk.delete_node(path, recursive=True)
        classes.add('parent-deleted')
        deleted_at[0] = env.now
        if lat_cls != 'zero' and rng.random() < 0.7:
          gevent.sleep(rng.random() * zk.latency[1] * rng.choice([0.3, 1.0, 2.5]))
        unobserved[0] = True
        classes.add('fast-recreate')
        zk.create_node(path)
        keep = saved[:rng.randint(0, len(saved))] if rng.random() < 0.7 else []
        other_servers = rng.random() < 0.5     # the names are taken by different servers this time
        if keep and other_servers:
          classes.add('blip:names-taken-by-other-servers')
        for n_, d_ in keep:
          zk.create_node(path + '/' + n_, member_data() if other_servers else d_)
          if lat_cls != 'zero' and rng.random() < 0.3:
            gevent.sleep(rng.random() * zk.latency[1])
        if keep:
          classes.add('parent-recreated-same-names')
        for _i in range(rng.choice([0, 0, 1, 2])):
          add_member()
      elif k < 0.995 and members:
        # a member restarts: its node goes away and a node with a new name and the same data (same
        # endpoint) appears, within one listing of the children or across two
        classes.add('restart-same-endpoint')
        old = rng.choice(members)
        data_ = zk.nodes[path + '/' + old][0]
        zk.delete_node(path + '/' + old)
        if lat_cls != 'zero' and rng.random() < 0.4:
          gevent.sleep(rng.random() * zk.latency[1] * 1.5)
        if path in zk.nodes:
          counter[0] += 1
          zk.create_node(path + '/member_%010d' % counter[0], data_)
      # yield or not between mutations
      r = rng.random()
      if r < 0.3:
        pass
      elif r < 0.6:
        gevent.sleep(rng.random() * 0.004)
      else:
        check('mid-history')
      if len(out.violations) >= 6:
        break
    check('end of history')
    ss.stop()
    zk.shutdown()
    env.advance(0.1)
    out.classes = sorted(classes)
    out.nontrivial = stats['joins'] + stats['leaves'] >= 3
    out.extra.update({'joins': stats['joins'], 'leaves': stats['leaves'], 'callback_errors': stats['callback_errors'],
                      'diag_zk_callback_errors': len(zk.callback_errors), 'diag_greenlet_errors': len(env.errors)})
    out.sig = (lat_cls, sorted(classes), nops, raise_p > 0)
    if idx % 29 == 0:
      out.sample = {'latency': lat_cls, 'ops': nops, 'classes': sorted(classes), 'stats': stats,
                    'log_tail': [(a, b) for a, b, _ in log[-8:]]}
    return out


CHECK = C19()
