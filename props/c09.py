"""C09 - failed endpoints fail fast and are used again once reachable.

Real Thrift / ThriftMux clients with one endpoint under steady traffic in
virtual time; the endpoint becomes unreachable (refusing or black-holing, with
its connections reset) and reachable again at seeded points, also unreachable at
first connect.  Observed at the boundaries: callers' completions, connect
attempts at the simulated endpoint (start/end/outcome), requests it receives."""
from vlib.framework import BaseCheck, CaseResult

EPS = 1e-6


class C09(BaseCheck):
  ID = 'C09'
  RULE = ('case = one client (Thrift or ThriftMux, one endpoint; resurrector parameters default 5/60/1.2 or '
          '(2,20,1.5) (1.5,10,1.2) (5,5,1.2)) with one call every delta in {0.25,0.5,1} s; 1-3 outages of '
          '10-250 virtual seconds (refusing or black-holed endpoint, existing connections reset or - 30% - left up with the host gone silent: requests and, on ThriftMux, keep-alive pings are never answered; such an outage lasts >= 70 s there and the first connection or fail-fast error is due within 40 + 5 s + one step; first '
          'outage optionally already at first connect), start and end placed at seeded phases relative to '
          'traffic and to the retry timer; then the client is closed and 3 max_wait of silence follow. '
          'Oracles: (a) once the client has answered with its fail-fast error, every call until the next '
          'successful connect fails fast in zero virtual time; (b) gaps between the end of one reconnect '
          'attempt and the start of the next are >= initial_wait, grow until they reach max_wait and never '
          'exceed it; (c) bounded recovery: a request arrives at the endpoint within max_wait + attempt '
          'duration + delta after it became reachable; (d) no connect attempt after DispatcherClose() and no '
          'connection left open on the client side afterwards (the close is either a plain DispatcherClose() at a '
          'quiet moment, during an outage, or the caller\'s reaction to the error of the call that discovers a dead '
          'connection). '
          'Every 4th case instead has 2-3 endpoints that all become unreachable at once and one of them '
          'returns ((c) and (d) only); every 8th has 3-4 endpoints behind the heap balancer of which two go '
          'down one after the other and come back in either order while the rest stay healthy ((c) with a '
          '30 s traffic allowance for the balancer\'s random choice, (d)); another 8th has 3-5 endpoints behind an aperture balancer with jitter rounds every 1-4 s, the connected endpoint(s) go down under traffic (marked down, rotated out), the client is closed while they are down and they return afterwards ((d)). 40% of the Thrift single-endpoint cases use a bounded watermark pool with a burst of calls right before the outage (requests waiting in the pool when the connection dies); only connection attempts that originate from the resurrector are judged against the back-off schedule (b). non-trivial = at least one outage with >= 2 reconnect attempts; distinct by (stack, params, '
          'outage classes, #retries bucket, recovery phase bucket)')
  ANCHORS = ('scales.resurrector:ResurrectorSink._OnSinkFaulted', 'scales.resurrector:ResurrectorSink._TryResurrect',
             'scales.resurrector:ResurrectorSink.AsyncProcessRequest', 'scales.resurrector:ResurrectorSink.Close')
  REQUIRED_ANCHORS = ANCHORS
  REQUIRED_CLASSES = ('thrift', 'mux', 'multi-endpoint', 'outage:refuse', 'outage:blackhole', 'down-at-first-connect', 'recovered',
                      'fail-fast-seen', 'backoff-capped', 'closed-while-down', 'back-under-the-same-name-at-another-address', 'peer-pings-the-client-too', 'outage-begins-mid-reply', 'closed-before-the-open-ran', 'closed-on-error', 'staggered-outages',
                      'recover:first-down-first', 'recover:last-down-first', 'rotation-during-outage', 'waiters-at-outage', 'stock-resurrector',
                      'direct:close-same-instant-attempt-completes', 'outage:host-goes-silent', 'outage:host-goes-silent-mux', 'outages:thrift', 'outages:mux', 'outage:accept-drop')
  ASSUMPTIONS = ('initial_wait_interval > 1 (the implementation\'s x**exponent back-off only grows above 1)',
                 'black-holed connects give up after 3 s in these scenarios (SYN timeout shortened so that '
                 'attempt durations stay small against the retry intervals)')
  QUICK_CASES = 256
  THOROUGH_CASES = 6000
  QUICK_WALL = 180
  THOROUGH_WALL = 1800
  MIN_DISTINCT = 10

  def _multi(self, env, rng, idx, tier):
    """Several endpoints, all unreachable at once, one of them returns: traffic must reach it
    within one maximum retry interval, with no server-set change; silence after close."""
    from vlib import servers
    from vlib.stackworld import StackWorld
    out = CaseResult()
    kind = ('thrift', 'mux')[(idx // 4) % 2]
    init, mx, ex = rng.choice([(5, 60, 1.2), (2, 20, 1.5), (1.5, 10, 1.2)])
    delta = rng.choice([0.25, 0.5])
    n = rng.choice([2, 3])
    balancer = rng.choice(['aperture', 'heap'])
    w = StackWorld(env, rng, kind=kind, n_eps=n, balancer=balancer, timeout=1.0, policy=servers.DefaultPolicy(0.002),
                   resurrector={'initial_wait_interval': init, 'max_wait_interval': mx, 'backoff_exponent': ex},
                   connect_latency=0.001)
    facts = {'stack': kind, 'params': [init, mx, ex], 'endpoints': n, 'balancer': balancer}
    classes = {kind, 'multi-endpoint'}
    for s_ in w.servers:
      s_.sim.syn_timeout = 3.0

    def tick(k):
      for _ in range(k):
        w.call('echo', None, timeout=1.0)
        env.advance(delta)
    tick(rng.randint(4, 12))
    mode = rng.choice(['refuse', 'blackhole'])
    for s_ in w.servers:
      s_.sim.mode = mode
      for c in s_.sim.conns:
        if not c.client_closed:
          c.close_by_server('rst')
    t_down = env.now
    tick(int(rng.choice([20, 60, 150]) * (0.5 + rng.random()) / delta))
    ret = rng.choice(w.servers)
    ret.sim.mode = 'up'
    r = env.now
    tick(int((mx + 10) / delta))
    w.close()
    t_close = env.now
    env.advance(3 * mx + 10)
    arrived = [q['vt'] for q in ret.requests if q['vt'] >= r]
    bound = r + mx + 3.2 + delta + 0.5
    out.obligations += 2
    if not arrived or min(arrived) > bound:
      out.violate('recovery:too-late', 'all %d endpoints were unreachable for %.0fs; %s came back and received no '
                  'request within max wait %.0fs + attempt + delta (first arrival: %s)' % (
                    n, r - t_down, ret.ep, mx, ('%.1fs' % (min(arrived) - r)) if arrived else 'never'),
                  dict(facts, multi=True), {'attempts_at_returning': [(round(a[0] - r, 2), a[1]) for a in ret.sim.connect_attempts][-8:]})
    else:
      classes.add('recovered')
    late = [a for s_ in w.servers for a in s_.sim.connect_attempts if a[0] > t_close + EPS]
    if late:
      out.violate('close:reconnect-after-close', '%d connect attempt(s) after DispatcherClose()' % len(late), facts)
    left_open = [c.id for s_ in w.servers for c in s_.sim.conns if not c.client_closed]
    if left_open:
      out.violate('close:connection-left-open', '%d connection(s) still open on the client side %.0fs after '
                  'DispatcherClose()' % (len(left_open), env.now - t_close), facts, {'conns': left_open[:5]})
    out.classes = sorted(classes)
    out.nontrivial = True
    out.extra = {'calls': len(w.calls), 'multi_cases': 1}
    out.sig = ('multi', kind, balancer, n, (init, mx, ex), mode)
    return out

  def _direct(self, env, rng, out, classes):
    """The resurrector alone over harness-owned sinks whose Open() results the harness completes:
    the channel is closed before, in the very instant of, or after the completion of a reconnection
    attempt (successful or failed).  Afterwards nothing the resurrector created may be left un-closed
    and it creates nothing more."""
    from scales.asynchronous import AsyncResult
    from scales.constants import SinkProperties
    from scales.loadbalancer.zookeeper import Endpoint
    from scales.resurrector import ResurrectorSink
    from scales.sink import ClientMessageSink
    made = []

    class S(ClientMessageSink):
      def __init__(self):
        super(S, self).__init__()
        self.st, self.ar, self.closes = 1, None, 0
        made.append(self)

      @property
      def state(self):
        return self.st

      def Open(self):
        self.ar = AsyncResult()
        if len(made) == 1:
          self.st = 2
          self.ar.set(True)
        return self.ar

      def Close(self):
        self.st = 4
        self.closes += 1

      def AsyncProcessRequest(self, *a):
        pass

      def AsyncProcessResponse(self, *a):
        pass

    class P(object):
      def CreateSink(self, props):
        return S()
    init = rng.choice([1.5, 2.0])
    prov = ResurrectorSink.Builder(initial_wait_interval=init, max_wait_interval=5, backoff_exponent=1.2)
    prov.next_provider = P()
    res = prov.CreateSink({SinkProperties.Endpoint: Endpoint('rh', 1), SinkProperties.Label: 'c09d%d' % rng.getrandbits(16)})
    res.Open()
    env.advance(0.1)
    made[0].st = 4
    made[0].on_faulted.Set(Exception('connection lost'))
    env.advance(init + 0.1)
    if len(made) < 2 or made[-1].ar is None:
      return
    att = made[-1]
    when = rng.choice(['before', 'same-instant', 'same-instant', 'after'])
    ok = rng.random() < 0.7
    classes.add('direct:close-%s-attempt-completes' % when)

    def complete():
      if att.closes:
        # (closed while connecting: like the real transports, the open fails and the sink stays closed)
        if not att.ar.ready():
          att.ar.set_exception(Exception('closed while connecting'))
      elif ok:
        att.st = 2
        att.ar.set(True)
      else:
        att.st = 4
        att.ar.set_exception(Exception('connect failed'))
    if when == 'before':
      res.Close()
      env.advance(0.01)
      complete()
    elif when == 'same-instant':
      complete()
      res.Close()          # before the retry loop's greenlet has been resumed with the result
    else:
      complete()
      env.advance(0.01)
      res.Close()
    n_at_close = len(made)
    env.advance(30.0)
    out.obligations += 2
    facts = {'stack': 'resurrector-direct', 'when': when, 'attempt_ok': ok}
    open_left = [i for i, s_ in enumerate(made) if s_.st != 4]
    if open_left:
      out.violate('close:connection-left-open', 'the channel was closed %s the completion of a %s reconnection attempt; '
                  'sink(s) %r created by the resurrector are still not closed 30 s later' % (
                    {'before': 'before', 'same-instant': 'in the instant of', 'after': 'after'}[when],
                    'successful' if ok else 'failed', open_left), facts)
    if len(made) > n_at_close:
      out.violate('close:reconnect-after-close', '%d reconnection attempt(s) after the channel was closed' % (
        len(made) - n_at_close), facts)

  def _rotation(self, env, rng, idx, tier):
    """Aperture balancer with frequent jitter rounds over 3-5 endpoints; one endpoint goes down under
    traffic (it is marked down, the aperture grows, rounds rotate it out), the client is closed
    while it is still down, then it comes back: silence after the close, nothing left open."""
    from vlib import servers
    from vlib.stackworld import StackWorld
    out = CaseResult()
    kind = ('thrift', 'mux')[(idx // 8) % 2]
    init, mx, ex = rng.choice([(1.5, 10, 1.2), (2, 20, 1.5), (1.5, 4, 1.2)])
    n = rng.choice([3, 4, 5])
    jit = rng.choice([(1, 2), (2, 4)])
    w = StackWorld(env, rng, kind=kind, n_eps=n, timeout=1.0, policy=servers.DefaultPolicy(0.002),
                   resurrector={'initial_wait_interval': init, 'max_wait_interval': mx, 'backoff_exponent': ex},
                   connect_latency=0.001,
                   aperture={'min_size': 1, 'max_size': 2 ** 31, 'min_load': 0.5, 'max_load': 2.0,
                             'jitter_min_sec': jit[0], 'jitter_max_sec': jit[1]})
    facts = {'stack': kind, 'params': [init, mx, ex], 'endpoints': n, 'balancer': 'aperture+jitter'}
    classes = {kind, 'multi-endpoint', 'rotation-during-outage'}
    for s_ in w.servers:
      s_.sim.syn_timeout = 3.0
    delta = rng.choice([0.1, 0.25])

    def tick(k, conc=1):
      for _ in range(k):
        for _c in range(conc):
          w.call('echo', None, timeout=1.0)
        env.advance(delta)
    tick(rng.randint(8, 30), rng.choice([1, 3]))
    # the endpoint(s) the client is connected to right now go down
    victims = [s_ for s_ in w.servers if any(not c.client_closed for c in s_.sim.conns)][:rng.choice([1, 2])]
    mode = rng.choice(['refuse', 'blackhole'])
    for s_ in victims:
      s_.sim.mode = mode
      for c in s_.sim.conns:
        if not c.client_closed:
          c.close_by_server('rst')
    t_down = env.now
    tick(int(rng.choice([10, 25, 60]) / delta), rng.choice([1, 1, 3]))
    w.close()
    t_close = env.now
    env.advance(rng.choice([0.0, 0.5, 3.0]))
    for s_ in victims:
      s_.sim.mode = 'up'
    env.advance(3 * mx + 10)
    out.obligations += 2
    late = [a for s_ in w.servers for a in s_.sim.connect_attempts if a[0] > t_close + EPS]
    if late:
      out.violate('close:reconnect-after-close', '%d connect attempt(s) after DispatcherClose(), first %.2fs later (%s)' % (
        len(late), late[0][0] - t_close, late[0][3]), facts, {'down_for': t_close - t_down})
    left_open = [c.id for s_ in w.servers for c in s_.sim.conns if not c.client_closed]
    if left_open:
      out.violate('close:connection-left-open', '%d connection(s) still open on the client side %.0fs after '
                  'DispatcherClose()' % (len(left_open), env.now - t_close), facts, {'conns': left_open[:5]})
    out.classes = sorted(classes)
    out.nontrivial = True
    out.extra = {'calls': len(w.calls), 'rotation_cases': 1}
    out.sig = ('rotation', kind, n, (init, mx, ex), mode, jit, len(victims))
    return out

  def _staggered(self, env, rng, idx, tier):
    """Heap balancer over 3-4 endpoints (all in use): A goes down, then B while A is still
    down, they come back in a seeded order, the others stay healthy throughout.  Each must be
    sent traffic again within one maximum retry interval (+ attempt + a traffic allowance for
    the balancer's random choice among equally loaded members) of becoming reachable."""
    from vlib import servers
    from vlib.stackworld import StackWorld
    out = CaseResult()
    kind = ('thrift', 'mux')[(idx // 8) % 2]
    init, mx, ex = rng.choice([(2, 20, 1.5), (1.5, 10, 1.2), (3, 6, 1.2)])
    delta = 0.25
    n = rng.choice([3, 4])
    w = StackWorld(env, rng, kind=kind, n_eps=n, balancer='heap', timeout=1.0, policy=servers.DefaultPolicy(0.002),
                   resurrector={'initial_wait_interval': init, 'max_wait_interval': mx, 'backoff_exponent': ex},
                   connect_latency=0.001)
    facts = {'stack': kind, 'params': [init, mx, ex], 'endpoints': n, 'balancer': 'heap', 'staggered': True}
    classes = {kind, 'multi-endpoint', 'staggered-outages'}
    for s_ in w.servers:
      s_.sim.syn_timeout = 3.0

    def tick(seconds):
      for _ in range(int(seconds / delta)):
        w.call('echo', None, timeout=1.0)
        env.advance(delta)

    def down(s_):
      s_.sim.mode = rng.choice(['refuse', 'blackhole'])
      for c in s_.sim.conns:
        if not c.client_closed:
          c.close_by_server('rst')
    tick(3)
    a, b = rng.sample(w.servers, 2)
    down(a)
    tick(rng.choice([4, 8, 15]))       # traffic discovers the fault, the balancer marks A down
    down(b)
    tick(rng.choice([4, 8, 15]))
    order = [a, b] if rng.random() < 0.6 else [b, a]
    classes.add('recover:first-down-first' if order[0] is a else 'recover:last-down-first')
    allowance = 30.0
    for s_ in order:
      s_.sim.mode = 'up'
      r = env.now
      tick(mx + 3.2 + allowance + rng.choice([0, 5]))
      arrived = [q['vt'] for q in s_.requests if q['vt'] >= r]
      out.obligations += 1
      if not arrived or min(arrived) > r + mx + 3.2 + allowance:
        out.violate('recovery:too-late', '%s (%s of two staggered outages) became reachable again and received no '
                    'request within max wait %.0fs + attempt + %.0fs of steady traffic (first arrival: %s); the other '
                    'endpoints stayed healthy' % (s_.ep, 'first' if s_ is a else 'second', mx, allowance,
                                                  ('%.1fs' % (min(arrived) - r)) if arrived else 'never'),
                    dict(facts, which='first-down' if s_ is a else 'second-down',
                         order='first-down-first' if order[0] is a else 'last-down-first'),
                    {'attempts': [(round(x[0] - r, 2), x[1]) for x in s_.sim.connect_attempts][-6:]})
      else:
        classes.add('recovered')
    w.close()
    t_close = env.now
    env.advance(3 * mx + 10)
    late = [x for s_ in w.servers for x in s_.sim.connect_attempts if x[0] > t_close + EPS]
    if late:
      out.violate('close:reconnect-after-close', '%d connect attempt(s) after DispatcherClose()' % len(late), facts)
    out.classes = sorted(classes)
    out.nontrivial = True
    out.extra = {'calls': len(w.calls), 'staggered_cases': 1}
    out.sig = ('staggered', kind, n, (init, mx, ex), order[0] is a)
    return out

  def run_case(self, env, rng, idx, tier):
    if idx % 4 == 3:
      return self._multi(env, rng, idx, tier)
    if idx % 8 == 5:
      return self._staggered(env, rng, idx, tier)
    if idx % 8 == 1:
      return self._rotation(env, rng, idx, tier)
    from scales.dispatch import ScalesError
    from scales.message import FailedFastError, TimeoutError as ScalesTimeout
    from vlib import servers
    from vlib.stackworld import StackWorld
    out = CaseResult()
    kind = ('thrift', 'mux')[(idx // 2) % 2]      # (this scenario only gets even indices)
    classes = {kind, 'outages:' + kind}
    self._direct(env, rng, out, classes)
    if idx % 10 == 6:
      # a client that is closed right after it was built without waiting for its open (the open has not even
      # begun, or is still under way), with its only endpoint unreachable: closed is closed
      classes.add('closed-before-the-open-ran')
      w0 = StackWorld(env, rng, kind=kind, n_eps=1, balancer=rng.choice(['aperture', 'heap']), timeout=1.0, open_timeout=0,
                      resurrector={'initial_wait_interval': 1.5, 'max_wait_interval': 3, 'backoff_exponent': 1.2},
                      server_modes=[rng.choice(['refuse', 'blackhole'])])
      w0.servers[0].sim.syn_timeout = 1.0
      if rng.random() < 0.3:
        env.advance(0.0003)        # (otherwise not even a yield: the balancer's open has not begun)
      w0.close()
      t_close0 = env.now
      env.advance(20.0)
      out.obligations += 1
      late0 = [a for a in w0.servers[0].sim.connect_attempts if a[0] > t_close0 + EPS]
      if late0:
        out.violate('close:reconnect-after-close', '%d connect attempt(s) after DispatcherClose() of a client that was closed right '
                    'after Build() (open not awaited), first %.2fs later' % (len(late0), late0[0][0] - t_close0),
                    {'stack': kind, 'closed_before_open_ran': True})
    init, mx, ex = rng.choice([(5, 60, 1.2), (5, 60, 1.2), (2, 20, 1.5), (1.5, 10, 1.2), (5, 5, 1.2)])
    delta = rng.choice([0.25, 0.5, 1.0])
    first_down = rng.random() < 0.3
    down_mode = rng.choice(['refuse', 'blackhole'])
    # Thrift stack: in some cases a bounded connection pool, so that requests can be waiting in the
    # pool at the instant the endpoint's connection dies
    bounded = kind == 'thrift' and rng.random() < 0.4
    pool = {'min_watermark': rng.choice([0, 1]), 'max_watermark': rng.choice([1, 1, 2]), 'max_queue_len': 64} if bounded else None
    # the library's default schedule is either spelled out or left to the stock builder (another client
    # of this process - an earlier case - will have been built with a customised resurrector)
    class Pol(servers.DefaultPolicy):
      silent = False

      cut_next = 0

      def __call__(self, server, conn, req):
        if self.cut_next:
          # the host dies in the middle of writing this reply: a prefix of the frame, then the connection ends
          k_, self.cut_next = self.cut_next, 0
          return {'delay': 0.002, 'cut': k_}
        return {'drop': True} if self.silent else {'delay': 0.002}

      def ping(self, server, conn, tag):
        if self.silent:
          return {'drop': True}
        if self.chatty:
          # a peer that checks the client's liveness as well: its own Tping (on the ping tag), and now and then
          # an Rerr for that tag, travel ahead of its answer to the client's ping
          from vlib import muxcodec as mc_
          return {'delay': 0.0005, 'preface': [mc_.frame(mc_.T_PING, 1)] + ([mc_.rerr(1, b'busy')] if len(server.pings) % 3 == 0 else [])}
        return {'delay': 0.0005}
    pol = Pol()
    pol.chatty = kind == 'mux' and idx % 3 == 0
    if pol.chatty:
      classes.add('peer-pings-the-client-too')
    stock = (init, mx, ex) == (5, 60, 1.2) and rng.random() < 0.6
    if stock:
      classes.add('stock-resurrector')
    # the endpoint is given by name and the service fails over: it comes back under the same name and port
    # at another address (the server set does not change)
    named = idx % 6 == 2
    moves = 0
    w = StackWorld(env, rng, kind=kind, n_eps=1, balancer=rng.choice(['aperture', 'heap']), timeout=1.0,
                   open_timeout=0 if first_down else None, policy=pol, pool=pool,
                   resurrector=None if stock else {'initial_wait_interval': init, 'max_wait_interval': mx, 'backoff_exponent': ex},
                   server_modes=[down_mode if first_down else 'up'],
                   connect_latency=rng.choice([0.0005, 0.01, 0.1]),
                   dns={'ep0': 'addr-0'} if named else None)
    srv = w.servers[0]
    srv.sim.syn_timeout = 3.0
    facts = {'stack': kind, 'params': [init, mx, ex]}
    outages = []            # dict(start, end, mode)
    if first_down:
      classes.add('down-at-first-connect')
      outages.append({'start': env.now, 'end': None, 'mode': down_mode})
      classes.add('outage:' + down_mode)
    t_case0 = env.now

    def tick(n):
      for _ in range(n):
        w.call('echo', None, timeout=1.0)
        env.advance(delta)

    n_out = rng.choice([1, 1, 2, 3])
    for o in range(n_out):
      if not (o == 0 and first_down):
        tick(rng.randint(2, 12))
        env.advance(rng.random() * delta)      # phase relative to traffic
        mode = rng.choice(['refuse', 'blackhole'])
        if (idx // 4) % 3 == 1 and kind == 'mux':
          # a proxy in front of the dead backend: connects are accepted and dropped at the first byte, so
          # the multiplexed transport's open (connect + initial ping) fails.  (The serial transport has no
          # handshake: for it such a connect is a successful open, and each request then discovers the
          # outage anew - a series of short outages, not one.)
          mode = 'accept-drop'
        if bounded and rng.random() < 0.7:
          # a burst just before the connection dies: some of these are queued in the pool then
          classes.add('waiters-at-outage')
          for _ in range(rng.choice([2, 3, 5])):
            w.call('echo', None, timeout=1.0)
          if rng.random() < 0.5:
            env.advance(0.0005)
        if rng.random() < 0.3:
          # the outage begins in the middle of a reply
          classes.add('outage-begins-mid-reply')
          pol.cut_next = rng.choice([1, 3, 4, 5, 11, 30])
          w.call('echo', None, timeout=1.0)
          env.advance(0.01)
          pol.cut_next = 0
        srv.sim.mode = mode
        if rng.random() < 0.3:
          # the host goes dark rather than resetting its connections: requests in flight are never
          # answered, the client finds out through timeouts and through connects that fail after a while
          # (serial transport) or through a keep-alive ping that goes unanswered (multiplexed transport)
          classes.add('outage:host-goes-silent' if kind == 'thrift' else 'outage:host-goes-silent-mux')
          pol.silent = True
          srv.sim.connect_latency = rng.choice([0.05, 0.3])

        else:
          for c in srv.sim.conns:
            if not c.client_closed:
              c.close_by_server(rng.choice(['rst', 'fin']))
        outages.append({'start': env.now, 'end': None, 'mode': mode, 'silent': pol.silent})
        classes.add('outage:' + mode)
      dur = rng.choice([10, 30, 80, 250]) * (0.5 + rng.random())
      if pol.silent and kind == 'mux':
        dur = max(dur, 70.0)       # longer than a ping period (30-40 s) plus its 5 s grace
      tick(int(dur / delta))
      env.advance(rng.random() * delta)
      if named:
        classes.add('back-under-the-same-name-at-another-address')
        moves += 1
        w.net.addr_owner.pop(w.net.dns['ep0'], None)
        w.net.dns['ep0'] = 'addr-%d' % moves
        w.net.addr_owner['addr-%d' % moves] = 'ep0'
      srv.sim.mode = 'up'
      if pol.silent:
        pol.silent = False
        for c in srv.sim.conns:      # the host is back: what it knew of the old connections is gone
          if not c.client_closed:
            c.close_by_server('rst')
      outages[-1]['end'] = env.now
      tick(int((mx + 8) / delta))
    closed_while_down = rng.random() < 0.35
    if closed_while_down:
      classes.add('closed-while-down')
      srv.sim.mode = rng.choice(['refuse', 'blackhole'])
      for c in srv.sim.conns:
        if not c.client_closed:
          c.close_by_server('rst')
      outages.append({'start': env.now, 'end': None, 'mode': srv.sim.mode, 'final': True})
      tick(int(rng.choice([3, 12, 40]) / delta))
    closed_at = []
    if not closed_while_down and rng.random() < 0.4:
      # the application closes the client as its reaction to a failed call: the connection has
      # just died (the endpoint itself stays reachable, so a reconnect loop that survives the
      # close would succeed), a call discovers it, and the caller closes on the error
      import gevent
      classes.add('closed-on-error')
      for c in srv.sim.conns:
        if not c.client_closed:
          c.close_by_server('rst')
      rec = w.call('echo', None, timeout=1.0)

      def caller():
        try:
          rec['ar'].get()
        except BaseException:  # noqa
          w.close()
          closed_at.append(env.now)
      if rec.get('ar') is not None:
        gevent.spawn(caller)
      env.advance(1.5)
    if not closed_at:
      w.close()
      closed_at.append(env.now)
    t_close = closed_at[0]
    env.advance(3 * mx + 10)

    # ---------------------------------------------------------------- oracles
    out.obligations += 1
    for cid_, vt_ in w.net.read_spins[:1]:
      # (the simulation broke the loop after 2000 reads; for real it never ends and nothing else runs again:
      # no fail-fast, no reconnection, no resumption)
      out.violate('fail-fast:reader-spins-at-end-of-stream', 'a client read loop read connection %d 2000 times in one instant after the '
                  'peer had closed it in the middle of a frame, without yielding' % cid_, facts)
    attempts = [a for a in srv.sim.connect_attempts]
    reqs = srv.requests
    retries_total = 0
    for oi, o in enumerate(outages):
      end = o['end'] if o['end'] is not None else t_close
      # failed attempts during the outage, in order
      failed = [a for a in attempts if a[0] >= o['start'] - EPS and a[0] < end and a[1] != 'ok' and a[2] is not None]
      # (a) fail-fast: after the first FailedFast completion, until the next successful connect
      ff_start = None
      for r in w.calls:
        if r['t'] < o['start'] or r['t'] > end or not r['completions']:
          continue
        p = r['completions'][0]['payload']
        conn_err = isinstance(p, ScalesError) and not isinstance(p.inner_exception, ScalesTimeout) and \
          r['t'] >= o['start']
        if conn_err:
          # the instant the client first answered a call of this outage with its fail-fast error, or
          # failed one with a connection error (the transport faults in that instant): it knows
          t_known = r['completions'][0]['vt']
          ff_start = t_known if ff_start is None else min(ff_start, t_known)
          if isinstance(p.inner_exception, FailedFastError):
            classes.add('fail-fast-seen')
      next_ok = min([a[2] for a in attempts if a[1] == 'ok' and a[0] >= o['start']] or [float('inf')])
      if o.get('silent') and kind == 'mux' and end - o['start'] > 50.0 and not o.get('final'):
        # bounded detection: a keep-alive ping goes out every 30-40 s and is given 5 s; under steady
        # traffic the client must have found the silent connection out within 40 + 5 s (+ one step)
        out.obligations += 1
        if ff_start is None or ff_start > o['start'] + 45.0 + delta + 0.1:
          out.violate('fail-fast:silent-outage-undetected', 'the host went silent %.1fs ago (connection up, nothing answered, '
                      'steady traffic with 1 s timeouts); pings are due every 30-40 s with 5 s grace, but %s' % (
                        end - o['start'], 'no call has failed with a connection or fail-fast error yet' if ff_start is None
                        else 'the first such failure came after %.1fs' % (ff_start - o['start'])), facts, {'outage': o})
      if ff_start is not None:
        for r in w.calls:
          if r['t'] <= ff_start or r['t'] >= min(next_ok, end, t_close) - EPS or not r['completions']:
            continue
          c0 = r['completions'][0]
          p = c0['payload']
          out.obligations += 1
          ok = isinstance(p, ScalesError) and isinstance(p.inner_exception, FailedFastError) and \
            c0['vt'] - r['t'] <= EPS
          if not ok:
            out.violate('fail-fast:not-immediate', 'call %d issued %.2fs into an outage the client already knew '
                        'about completed after %.3fs with %s' % (r['cid'], r['t'] - o['start'], c0['vt'] - r['t'],
                                                                type(getattr(p, 'inner_exception', p)).__name__),
                        facts, {'outage': o, 'call_t': r['t'] - o['start']})
            break
      # (b) back-off between reconnect attempts while continuously unreachable
      gaps = [failed[i + 1][0] - failed[i][2] for i in range(len(failed) - 1)]
      if ff_start is not None and len(failed) >= 2:
        # the retry schedule is the resurrector's; a connection the request path asks for on its own
        # (a pool growing for a request that was already waiting, a transport re-establishing itself
        # after a timeout) is not part of it
        known = [a for a in failed if a[0] >= ff_start - EPS and a[3] == 'resurrector']
        gaps = [known[i + 1][0] - known[i][2] for i in range(len(known) - 1)]
        retries_total += len(known)
        for i, gp in enumerate(gaps):
          out.obligations += 1
          if gp < init - EPS:
            out.violate('backoff:too-soon', 'reconnect attempt %.3fs after the previous one ended, initial wait '
                        'is %.1fs' % (gp, init), facts, {'gaps': [round(x, 3) for x in gaps]})
            break
          if gp > mx + EPS:
            out.violate('backoff:beyond-max', 'reconnect attempts %.3fs apart, max wait is %.1fs' % (gp, mx),
                        facts, {'gaps': [round(x, 3) for x in gaps]})
            break
          if i > 0:
            prev = gaps[i - 1]
            if gp < prev - EPS or (prev < mx - EPS and init > 1 and gp <= prev + EPS and mx > init):
              out.violate('backoff:not-growing', 'retry delays do not grow towards the maximum: %r' % (
                [round(x, 3) for x in gaps],), facts, {'gaps': [round(x, 3) for x in gaps]})
              break
        if gaps and gaps[-1] >= mx - EPS:
          classes.add('backoff-capped')
      # (c) bounded recovery
      if o['end'] is not None:
        arrived = [q['vt'] for q in reqs if q['vt'] >= o['end']]
        longest_attempt = 3.0 + 0.2
        bound = o['end'] + mx + longest_attempt + delta + 0.5
        out.obligations += 1
        if not arrived or min(arrived) > bound:
          out.violate('recovery:too-late', 'endpoint reachable again for %.1fs and no request arrived (bound: max '
                      'wait %.0fs + attempt + delta); first arrival after %s' % (
                        (min(arrived) if arrived else env.now) - o['end'], mx,
                        ('%.1fs' % (min(arrived) - o['end'])) if arrived else 'never'),
                      dict(facts, knew=ff_start is not None),
                      {'outage_len': o['end'] - o['start'], 'failed_attempts': len(failed),
                       'gaps': [round(x, 3) for x in gaps][-6:]})
        else:
          classes.add('recovered')
    # (d) silence after close
    out.obligations += 1
    late = [a for a in attempts if a[0] > t_close + EPS]
    if late:
      out.violate('close:reconnect-after-close', '%d connect attempt(s) after DispatcherClose(), first %.2fs later' % (
        len(late), late[0][0] - t_close), facts, None)
    out.obligations += 1
    left_open = [c.id for s_ in w.servers for c in s_.sim.conns if not c.client_closed]
    if left_open:
      out.violate('close:connection-left-open', '%d connection(s) still open on the client side %.0fs after '
                  'DispatcherClose()' % (len(left_open), env.now - t_close), facts, {'conns': left_open[:5]})
    for s_ in w.servers:
      for bf in s_.bad_frames:
        out.violate('bad-frame', repr(bf), facts)
    out.classes = sorted(classes)
    out.nontrivial = retries_total >= 2
    out.extra = {'calls': len(w.calls), 'connect_attempts': len(attempts), 'retries_in_known_outages': retries_total,
                 'outages': len(outages), 'diag_greenlet_errors': len(env.errors)}
    out.sig = (kind, (init, mx, ex), sorted(c for c in classes if ':' in c or c in ('down-at-first-connect', 'closed-while-down')),
               min(retries_total, 8), delta)
    if idx % 11 == 0:
      out.sample = {'stack': kind, 'params': [init, mx, ex], 'delta': delta,
                    'outages': [{'len': round((o['end'] or t_close) - o['start'], 1), 'mode': o['mode']} for o in outages],
                    'attempts': [(round(a[0] - t_case0, 2), a[1]) for a in attempts][:14], 'calls': len(w.calls)}
    return out


CHECK = C09()
