"""C14 - framed Thrift calls and replies agree with the Thrift library's codec,
whatever the chunking of the reply stream.  Full public client
(Thrift.NewClient) over the simulated network against the library's generated
Processor (pure-Python TBinaryProtocol)."""
import itertools

from vlib.framework import BaseCheck, CaseResult

TEXTS = ['', 'a', 'hello', 'héllo', '日本語テキスト', 'x' * 300, '\U0001f600 smile', 'tab\tnl\n', 'é' * 70,
         # text that means something to a formatter (%-style, str.format, logging)
         'disk 100% full', 'bad key %s', '%(name)s %d', '{0} {x} {}', '50%']


def gen_text(rng):
  return rng.choice(TEXTS) + ('#%d' % rng.randint(0, 10**6) if rng.random() < 0.7 else '')


def pair_eq(a, b):
  return (a.name, a.n, a.blob, a.nums, a.kv) == (b.name, b.n, b.blob, b.nums, b.kv)


class C14(BaseCheck):
  ID = 'C14'
  RULE = ('case = one public Thrift client (Thrift.NewClient) on the simulated network, one '
          'generated (interface, method, arguments passed by position, by keyword or both) and its expected outcome (value / declared '
          'exception / application exception / void); the call is repeated under every 1-cut and '
          '(quick: 30 sampled, thorough: all) 2-cut splits of the reply byte stream when the reply is '
          '<= 64 bytes, random k-cuts otherwise, each piece delivered with an inter-chunk delay so the '
          'real readAll loops; the server side is the Thrift library\'s Processor which must decode the '
          'same method/args; every 3rd value case then issues 2-7 concurrent calls on a fresh client against a slow '
          'server (decoded requests must be exactly the calls made, each caller gets its own reply); every 4th case also '
          '(interfaces up to three levels deep: LeafService extends ExtService extends VerifService; 4% of the cases carry a value of more than a mebibyte) calls a same-named method of two services that extend the same base service (different argument structs) '
          'from one process, in a seeded order; every 3rd case ends with 3-8 calls of one method on the same client whose replies alternate between value / void success and declared exception; in 40% of the cases a single send() accepts only 1-200 bytes. non-trivial = at least 2 chunkings completed; distinct by (interface, '
          'method, value classes, outcome kind, chunking class)')
  ANCHORS = ('scales.thrift.serializer:MessageSerializer.SerializeThriftCall',
             'scales.thrift.serializer:MessageSerializer.DeserializeThriftCall',
             'scales.varz:VarzSocketWrapper.readAll')
  REQUIRED_ANCHORS = ANCHORS
  REQUIRED_CLASSES = ('outcome:value', 'outcome:declared-exc', 'outcome:declared-exc-not-first', 'outcome:app-exc', 'outcome:void',
                      'iface:hello', 'iface:verif', 'iface:ext', 'iface:leaf', 'chunk:1cut', 'chunk:2cut', 'chunk:kcut',
                      'text:nonascii', 'text:empty', 'concurrent', 'two-services', 'short-sends', 'alternating-outcomes', 'call:positional-and-keyword', 'call:keyword-only', 'reply:slow-or-pausing', 'concurrent:interleaved-pieces',
                      'text:over-a-mebibyte', 'call-issued-while-opening', 'late-reply-then-next-calls')
  ASSUMPTIONS = ('interfaces: the repository\'s hello.Hello plus a hand-written module in the shape the '
                 'Thrift compiler emits (py:dynamic); no Thrift compiler is available offline',)
  QUICK_CASES = 480
  THOROUGH_CASES = 4000
  QUICK_WALL = 180
  THOROUGH_WALL = 1800
  MIN_DISTINCT = 10

  def setup(self, env, tier):
    from vlib import simnet
    self.net = simnet.Network(env)
    self.net.install()
    self.port = 30000

  def _gen(self, rng):
    """-> (iface_kind, method, args, kwargs, expected) ; expected = ('value', v) |
    ('declared', why, code) | ('declared-other', detail, n) | ('declared-third', tag) | ('app', text) | ('void',)"""
    from vlib.gen.verifsvc import ttypes
    k = rng.choice(['hi', 'echo', 'echo', 'add', 'swap', 'flag', 'ping', 'fail', 'vfail', 'vfail-ok', 'concat',
                    'blob', 'names', 'extra', 'appexc', 'fail-other', 'fail-third', 'vfail-other'])
    if rng.random() < 0.04:
      k = 'huge'
    if k == 'hi':
      s = gen_text(rng)
      return 'hello', 'hi', (s,), {}, ('value', 'hi:' + s)
    iface = rng.choice(['verif', 'ext', 'leaf'])      # leaf: a service two levels below the base one
    if k == 'extra':
      s = gen_text(rng)
      if rng.random() < 0.5:
        m_ = rng.choice(['extra', 'leaf'])
        return 'leaf', m_, (s,), {}, ('value', m_ + ':' + s)
      return 'ext', 'extra', (s,), {}, ('value', 'extra:' + s)
    if k == 'huge':
      # values of more than a mebibyte of UTF-8: as a plain string, in a declared exception
      unit = rng.choice(['x', 'é', '日'])
      s = 'h' + unit * (((1 << 20) + rng.randint(1, 70000)) // len(unit.encode('utf-8')) + 1)
      if rng.random() < 0.3:
        return iface, 'fail', (s,), {}, ('declared', s, len(s))
      return iface, 'echo', (s,), {}, ('value', 'echo:' + s)
    if k == 'echo':
      s = gen_text(rng)
      if s.startswith('APPEXC:'):
        s = 'x' + s
      if rng.random() < 0.3:
        return iface, 'echo', (), {'s': s}, ('value', 'echo:' + s)
      return iface, 'echo', (s,), {}, ('value', 'echo:' + s)
    if k == 'appexc':
      s = 'APPEXC:' + gen_text(rng)
      if rng.random() < 0.3:
        # a reply that carries neither a value nor an exception for a non-void method: the Thrift
        # library's own client raises its 'unknown result' application exception for it
        s = 'NONE:' + gen_text(rng)
        return iface, 'echo', (s,), {}, ('app', 'unknown result')
      return iface, 'echo', (s,), {}, ('app', 'app:' + s)
    if k == 'concat':
      # parameters numbered out of order in the IDL (2: first, 1: second), by position, mixed or by keyword
      a, b = gen_text(rng), gen_text(rng)
      want = ('value', 'first=%s;second=%s' % (a, b))
      style = rng.choice(['pos', 'pos', 'mixed', 'kw'])
      if style == 'mixed':
        return iface, 'concat', (a,), {'second': b}, want
      if style == 'kw':
        return iface, 'concat', (), {'first': a, 'second': b}, want     # (the oracle reads keywords in declared order)
      return iface, 'concat', (a, b), {}, want
    if k == 'add':
      a, b = rng.randint(-2**31, 2**31 - 1), rng.randint(-2**62, 2**62)
      style = rng.choice(['pos', 'pos', 'mixed', 'kw'])
      if style == 'mixed':       # first argument by position, the second by keyword
        return iface, 'add', (a,), {'b': b}, ('value', a + b)
      if style == 'kw':
        return iface, 'add', (), {'a': a, 'b': b}, ('value', a + b)
      return iface, 'add', (a, b), {}, ('value', a + b)
    if k == 'swap':
      p = ttypes.Pair(gen_text(rng), rng.randint(-99, 99),
                      rng.choice([None, b'', bytes(rng.getrandbits(8) for _ in range(rng.randint(1, 40)))]),
                      [rng.randint(-5, 5) for _ in range(rng.randint(0, 6))],
                      {gen_text(rng): gen_text(rng) for _ in range(rng.randint(0, 3))})
      want = ttypes.Pair(p.name[::-1], -p.n, p.blob, list(reversed(p.nums)), {v: kk for kk, v in p.kv.items()})
      return iface, 'swap', (p,), {}, ('value', want)
    if k == 'flag':
      b = rng.random() < 0.5
      if rng.random() < 0.3:
        return iface, 'flag', (b,), {'d': rng.random() * 1e9}, ('value', not b)
      return iface, 'flag', (b, rng.random() * 1e9), {}, ('value', not b)
    if k == 'ping':
      return iface, 'ping', (), {}, ('void',)
    if k == 'fail':
      s = gen_text(rng)
      if s.endswith(':FINE'):
        s = s + 'x'
      return iface, 'fail', (s,), {}, ('declared', s, len(s))
    if k == 'vfail':
      s = 'no' + gen_text(rng)
      return iface, 'vfail', (s,), {}, ('declared', s, len(s))
    if k == 'fail-other':      # the second / third declared exception of the method
      s = 'OTHER:' + gen_text(rng) + 'x'
      return iface, 'fail', (s,), {}, ('declared-other', s, len(s) * 1000003)
    if k == 'fail-third':
      s = 'THIRD:' + gen_text(rng) + 'x'
      return iface, 'fail', (s,), {}, ('declared-third', s)
    if k == 'vfail-other':
      s = 'OTHER:' + gen_text(rng)
      return iface, 'vfail', (s,), {}, ('declared-other', s, len(s) * 1000003)
    if k == 'vfail-ok':
      return iface, 'vfail', ('ok' + gen_text(rng),), {}, ('void',)
    if k == 'blob':
      b = bytes(rng.getrandbits(8) for _ in range(rng.choice([0, 1, 17, 200])))
      return iface, 'blob', (b,), {}, ('value', bytes(reversed(b)))
    m = {gen_text(rng): rng.randint(0, 99) for _ in range(rng.randint(0, 4))}
    return iface, 'names', (m,), {}, ('value', sorted(m))

  def run_case(self, env, rng, idx, tier):
    from scales.thrift import Thrift
    from scales.dispatch import ScalesError
    from thrift.Thrift import TApplicationException
    from vlib import servers
    from vlib.gen.verifsvc import VerifService, ExtService, ttypes
    out = CaseResult()
    classes = set()
    iface_kind, method, args, kwargs, expected = self._gen(rng)
    classes.add('iface:' + iface_kind)
    classes.add('outcome:' + {'value': 'value', 'declared': 'declared-exc', 'app': 'app-exc', 'void': 'void',
                              'declared-other': 'declared-exc-not-first', 'declared-third': 'declared-exc-not-first'}[expected[0]])
    if kwargs:
      classes.add('call:positional-and-keyword' if args else 'call:keyword-only')
    for a in list(args) + list(kwargs.values()):
      if isinstance(a, str):
        if a == '':
          classes.add('text:empty')
        if len(a) > 300000:
          classes.add('text:over-a-mebibyte')
        if any(ord(c) > 127 for c in a):
          classes.add('text:nonascii')
    self.net.reset()
    self.port += 1
    if iface_kind == 'hello':
      from test.scales.thrift.gen_py.hello import Hello
      Iface, pm = Hello.Iface, Hello
    elif iface_kind == 'verif':
      Iface, pm = VerifService.Iface, ExtService
    elif iface_kind == 'leaf':
      from vlib.gen.verifsvc import LeafService
      Iface, pm = LeafService.Iface, LeafService
    else:
      Iface, pm = ExtService.Iface, ExtService
    plan = {'chunks': None, 'delay': 0.001}

    class Policy(servers.DefaultPolicy):
      def __call__(self, server, conn, req):
        return dict(plan)
    srv = servers.ThriftServer(self.net, 'th', self.port, Policy(), pm)
    if rng.random() < 0.4:
      # a socket whose send() accepts only a few bytes per call (small buffers / huge frames)
      srv.sim.send_limit = rng.choice([1, 5, 16, 200])
      classes.add('short-sends')
    client = Thrift.NewClient(Iface, 'tcp://th:%d' % self.port, timeout=30)

    def call_once():
      try:
        return ('ok', getattr(client, method)(*args, **kwargs))
      except BaseException as e:  # noqa
        return ('raised', e)

    def judge(res, chunk_desc):
      out.obligations += 2
      facts = {'outcome': expected[0], 'method': method}
      # server side: the library decoded the same call
      req = srv.requests[-1] if srv.requests else None
      want_args = args + tuple(kwargs.values())
      if req is None or req['call'] is None or req['call'][0] != method or not req['consumed_all'] or \
          not self._args_eq(req['call'][1], want_args):
        out.violate('request:decoded-differently', 'Thrift library decoded %r, caller passed %s%r %r' % (
          req and req['call'], method, args, kwargs), facts, {'chunking': chunk_desc})
        return False
      kind, v = res
      ok = False
      if expected[0] == 'value':
        want = expected[1]
        ok = kind == 'ok' and (pair_eq(v, want) if isinstance(want, ttypes.Pair) and isinstance(v, ttypes.Pair)
                               else (v == want and type(v) is type(want)))
      elif expected[0] == 'void':
        ok = kind == 'ok' and v is None
      elif expected[0] == 'declared':
        inner = getattr(v, 'inner_exception', None)
        ok = kind == 'raised' and isinstance(v, ScalesError) and isinstance(inner, ttypes.VerifError) \
          and (inner.why, inner.code) == (expected[1], expected[2])
      elif expected[0] == 'declared-other':
        inner = getattr(v, 'inner_exception', None)
        ok = kind == 'raised' and isinstance(v, ScalesError) and isinstance(inner, ttypes.OtherError) \
          and (inner.detail, inner.n) == (expected[1], expected[2])
      elif expected[0] == 'declared-third':
        inner = getattr(v, 'inner_exception', None)
        ok = kind == 'raised' and isinstance(v, ScalesError) and isinstance(inner, ttypes.ThirdError) \
          and inner.tag == expected[1]
      elif expected[0] == 'app':
        inner = getattr(v, 'inner_exception', None)
        ok = kind == 'raised' and isinstance(v, ScalesError) and isinstance(inner, TApplicationException) \
          and expected[1] in str(inner.message)
      if not ok:
        mech = 'reply:%s-misreported' % expected[0]
        out.violate(mech, '%s%r expected %r, caller got %s %r (inner %r) under chunking %s' % (
          method, args, expected, kind, v, getattr(v, 'inner_exception', None), chunk_desc),
          facts, {'chunking': chunk_desc})
      return ok

    # fault-free, unchunked run first: learn the reply length
    r0 = call_once()
    good = judge(r0, 'none')
    done = 1 if good else 0
    total = 0
    if srv.sim.conns:
      total = srv.sim.conns[-1].s2c_written
    n = total  # bytes of one reply incl. the 4-byte length prefix
    chunkings = []
    if good and 0 < n <= 68:
      one = [(c,) for c in range(1, n)]
      two = list(itertools.combinations(range(1, n), 2))
      if tier == 'quick' or len(two) > 2500:
        two = rng.sample(two, min(len(two), 30 if tier == 'quick' else 600))
      chunkings = [('1cut', c) for c in one] + [('2cut', c) for c in two]
    elif good and n > 68:
      for _ in range(12 if tier == 'quick' else 60):
        k = rng.randint(1, 8)
        cuts = tuple(sorted(rng.sample(range(1, n), min(k, n - 1))))
        chunkings.append(('kcut', cuts))
      chunkings += [('1cut', (c,)) for c in (1, 2, 3, 4, 5, n - 1)]
    for cls, cuts in chunkings:
      sizes = [b - a for a, b in zip((0,) + cuts, cuts + (n,))]
      plan['chunks'] = [(s, rng.choice([0.0, 0.0003, 0.002])) for s in sizes]
      classes.add('chunk:' + cls)
      if judge(call_once(), '%s%r' % (cls, cuts)):
        done += 1
      elif len(out.violations) > 3:
        break
    if good and n > 1 and idx % 6 == 2:
      # a slow server: the reply starts many seconds after the request, or pauses for seconds in the
      # middle of the frame - all well inside the call's 30 s timeout
      classes.add('reply:slow-or-pausing')
      plan['chunks'] = None
      plan['delay'] = rng.choice([5.5, 9.0, 20.0])
      if judge(call_once(), 'none, reply after %.1f s' % plan['delay']):
        done += 1
      plan['delay'] = 0.001
      cut_ = rng.randint(1, n - 1)
      plan['chunks'] = [(cut_, rng.choice([6.0, 12.0])), (n - cut_, 0.0)]
      if judge(call_once(), '1cut(%d,) with a pause of %.0f s' % (cut_, plan['chunks'][0][1])):
        done += 1
      plan['chunks'] = None
    if good and idx % 5 == 4:
      # a reply that arrives after its call has timed out (a client with a short timeout, a slow server), and the
      # next calls made right away on the same client: each has the outcome of its own request
      classes.add('late-reply-then-next-calls')
      plan['chunks'] = None
      quick_ = Thrift.NewClient(Iface, 'tcp://th:%d' % self.port, timeout=0.5)
      client_, client = client, quick_
      try:
        plan['delay'] = rng.choice([0.7, 0.9])
        try:
          # (another call than the case's own, so that its late reply cannot pass for a reply to the calls after it)
          r_late = ('ok', (quick_.echo if hasattr(quick_, 'echo') else quick_.hi)('late-reply-%d' % idx))
        except BaseException as e_:  # noqa
          r_late = ('raised', e_)
        out.obligations += 1
        from scales.message import TimeoutError as ScalesTimeout
        if not (r_late[0] == 'raised' and isinstance(r_late[1], ScalesTimeout)):
          out.violate('reply:late-reply-not-a-timeout', 'a call with a 0.5 s timeout whose reply was sent %.1f s later ended with %r' % (
            plan['delay'], r_late[1]), {'method': method})
        late_by = plan['delay']
        plan['delay'] = 0.001
        if judge(call_once(), 'none, right after a call on this client had timed out (its reply is still to come)'):
          done += 1
        env.advance(late_by)        # the late reply has arrived by now, wherever it went
        for _k in range(2):
          if judge(call_once(), 'none, after the late reply of a timed-out call on this client had arrived'):
            done += 1
          env.advance(rng.choice([0.0, 0.1]))
      finally:
        client = client_
        plan['delay'] = 0.001
    if good and idx % 4 == 1:
      # a client that is used at once, while it is still opening (no waiting for the open at build time, the
      # connect takes 50 ms): the call is issued before the open completes and has the same outcome
      classes.add('call-issued-while-opening')
      plan['chunks'] = None
      srv.sim.connect_latency = 0.05
      early = Thrift.NewBuilder(Iface).SetUri('tcp://th:%d' % self.port).SetTimeout(30).SetOpenTimeout(0).Build()
      client_, client = client, early
      try:
        if judge(call_once(), 'none, call issued while the client was opening'):
          done += 1
      finally:
        client = client_
        srv.sim.connect_latency = 0.0005
    # ---- concurrent calls on a fresh client (no idle pooled connection): every request the
    # library decodes must be one of the calls made, every caller gets the reply to its own
    if good and expected[0] == 'value' and idx % 3 == 0:
      classes.add('concurrent')
      plan['chunks'] = None
      if (idx // 3) % 2 == 1:
        # every reply comes in pieces a few milliseconds apart: the pieces of the concurrent calls'
        # replies (each on its own pooled connection) interleave in time
        classes.add('concurrent:interleaved-pieces')
        plan['chunks'] = [(rng.randint(1, 9), 0.004) for _ in range(rng.randint(1, 3))]
      plan['delay'] = rng.choice([0.02, 0.2])
      client2 = Thrift.NewClient(Iface, 'tcp://th:%d' % self.port, timeout=30)
      n0 = len(srv.requests)
      calls = []
      for i in range(rng.randint(2, 7)):
        _, m2, a2, k2, e2 = self._gen(rng)
        tries = 0
        while (m2 not in ('echo', 'hi', 'extra', 'blob', 'names', 'add') or e2[0] != 'value' or
               not hasattr(client2, m2 + '_async')) and tries < 50:
          _, m2, a2, k2, e2 = self._gen(rng)
          tries += 1
        if tries >= 50:
          continue
        calls.append((m2, a2, k2, e2, getattr(client2, m2 + '_async')(*a2, **k2)))
        if rng.random() < 0.4:
          env.advance(rng.random() * 0.01)
      env.advance(3.0)
      out.obligations += 2
      decoded = sorted(repr((q['call'][0], q['call'][1])) for q in srv.requests[n0:] if q['call'])
      made = sorted(repr((m2, a2 + tuple(k2.values()))) for m2, a2, k2, e2, ar in calls)
      if decoded != made:
        out.violate('concurrent:request-decoded-differently', 'with %d concurrent calls the Thrift library decoded %s, '
                    'the calls made were %s' % (len(calls), decoded[:4], made[:4]), {'method': 'concurrent'})
      for m2, a2, k2, e2, ar in calls:
        if not ar.ready() or ar.exception is not None or ar.value != e2[1]:
          out.violate('concurrent:reply-misreported', 'concurrent call %s%r returned %r / %r, expected %r' % (
            m2, a2, ar.value if ar.ready() else 'pending', ar.exception if ar.ready() else None, e2[1]),
            {'method': 'concurrent'})
          break
      client2.DispatcherClose()
    # ---- one client, one method, replies of different kinds one after the other: a value, then a
    # declared exception, then a value again (fail); an exception, then a void success (vfail)
    if idx % 3 == 1 and iface_kind != 'hello':
      classes.add('alternating-outcomes')
      plan['chunks'] = None
      plan['delay'] = 0.001
      seq = []
      for _i in range(rng.choice([3, 5, 8])):
        m_ = rng.choice(['fail', 'fail', 'vfail'])
        good = rng.random() < 0.5
        t_ = gen_text(rng)
        if m_ == 'fail':
          a_ = (t_ + ':FINE') if good else (t_ + 'x' if t_.endswith(':FINE') else t_)
          want_ = ('value', 'fine:' + a_) if good else ('declared', a_, len(a_))
        else:
          a_ = ('ok' + t_) if good else ('no' + t_)
          want_ = ('void',) if good else ('declared', a_, len(a_))
        if not good and rng.random() < 0.4:     # another of the method's declared exceptions
          a_ = 'OTHER:' + t_ + 'x'
          want_ = ('declared-other', a_, len(a_) * 1000003)
        seq.append((m_, a_, want_))
      for m_, a_, want_ in seq:
        out.obligations += 1
        try:
          got_ = ('ok', getattr(client, m_)(a_))
        except BaseException as e:  # noqa
          got_ = ('raised', e)
        inner_ = getattr(got_[1], 'inner_exception', None)
        if want_[0] == 'value':
          ok_ = got_ == ('ok', want_[1])
        elif want_[0] == 'void':
          ok_ = got_ == ('ok', None)
        elif want_[0] == 'declared-other':
          ok_ = got_[0] == 'raised' and isinstance(got_[1], ScalesError) and isinstance(inner_, ttypes.OtherError) \
            and (inner_.detail, inner_.n) == (want_[1], want_[2])
        else:
          ok_ = got_[0] == 'raised' and isinstance(got_[1], ScalesError) and isinstance(inner_, ttypes.VerifError) \
            and (inner_.why, inner_.code) == (want_[1], want_[2])
        if not ok_:
          out.violate('sequence:outcome-misreported', '%s(%r) in a sequence of alternating outcomes on one client: expected %r, '
                      'caller got %s %r (inner %r); sequence so far %r' % (
                        m_, a_, want_, got_[0], got_[1], inner_, [(x[0], x[2][0]) for x in seq]),
                      {'method': m_, 'outcome': want_[0]})
          break
    # ---- two services in one process whose interfaces extend the same base service and share a
    # method name with different argument structs: each client must marshal with its own classes
    if idx % 4 == 1:
      from vlib.gen.verifsvc import Ext2Service
      classes.add('two-services')
      plan['chunks'] = None
      plan['delay'] = 0.001
      self.port += 2
      srv_a = servers.ThriftServer(self.net, 'th', self.port - 1, Policy(), ExtService)
      srv_b = servers.ThriftServer(self.net, 'th', self.port, Policy(), Ext2Service)
      cl_a = Thrift.NewClient(ExtService.Iface, 'tcp://th:%d' % (self.port - 1), timeout=30)
      cl_b = Thrift.NewClient(Ext2Service.Iface, 'tcp://th:%d' % self.port, timeout=30)
      order = ['a', 'b', 'a', 'b']
      rng.shuffle(order)
      for which in order:
        text = gen_text(rng)
        nval = rng.randint(-5, 1000)
        out.obligations += 2
        try:
          if which == 'a':
            got, want, sv, wcall = cl_a.extra(text), 'extra:' + text, srv_a, ('extra', (text,))
          else:
            got, want, sv, wcall = cl_b.extra(nval, text), 'extra2:%d:%s' % (nval, text), srv_b, ('extra', (nval, text))
        except BaseException as e:  # noqa
          out.violate('two-services:call-failed', 'extra() on service %s raised %r' % (which, e), {'method': 'extra'})
          continue
        req = sv.requests[-1] if sv.requests else None
        if req is None or req['call'] != wcall or not req['consumed_all']:
          out.violate('two-services:request-decoded-differently', 'service %s: Thrift library decoded %r, caller passed %r '
                      '(call order %s)' % (which, req and req['call'], wcall, ''.join(order)), {'method': 'extra'})
        elif got != want:
          out.violate('two-services:reply-misreported', 'service %s: extra%r returned %r, expected %r' % (
            which, wcall[1], got, want), {'method': 'extra'})
      cl_a.DispatcherClose()
      cl_b.DispatcherClose()
    client.DispatcherClose()
    env.advance(0.01)
    for e in env.errors:
      out.violate('greenlet-error', 'unhandled exception: %s: %s' % (e['type'], e['value']), {}, e)
    out.classes = sorted(classes)
    out.nontrivial = done >= 2
    out.extra = {'calls': 1 + len(chunkings), 'reply_bytes': n}
    out.sig = (iface_kind, method, expected[0], sorted(c for c in classes if c.startswith('text') or c.startswith('chunk')),
               min(n, 69) // 10)
    if idx % 23 == 0:
      out.sample = {'iface': iface_kind, 'method': method, 'args': repr(args)[:120], 'expected': repr(expected)[:120],
                    'reply_bytes': n, 'chunkings_run': len(chunkings),
                    'example_chunking': repr(chunkings[len(chunkings) // 2]) if chunkings else None}
    return out

  @staticmethod
  def _args_eq(got, want):
    from vlib.gen.verifsvc import ttypes
    if len(got) != len(want):
      return False
    for g, w in zip(got, want):
      if isinstance(w, ttypes.Pair):
        if not (isinstance(g, ttypes.Pair) and pair_eq(g, w)):
          return False
      elif isinstance(w, float):
        if g != w:
          return False
      elif g != w or type(g) is not type(w):
        return False
    return True


CHECK = C14()
