"""C05 - balancer membership equals the server set after any join/leave history."""
from props.lbcommon import LBCheck
from props.fullcommon import FullCheck


class _FullStackMembership(FullCheck):
  """Every 4th case: a complete client stack (real channels) on the simulated network with
  members joining and leaving under traffic and faults; judged at final quiescence."""
  ID = 'C05'
  FOCUS = ('membership:',)
  REQUIRED_CLASSES = ()

  def bias(self, rng):
    return {'membership': 0.6, 'scripted': 0.9}


class C05(LBCheck):
  ID = 'C05'
  FOCUS = ('membership:',)
  RULE = ('same world as C03 with a notification-heavy profile: scripted server-set provider whose '
          'GetServers() may take virtual time / fail once / name a member twice, endpoints are the library\'s Endpoint objects or (a fifth of the cases) plain named tuples, notifications (joins, duplicate joins, leaves, '
          'leaves of unknown members, re-joins) delivered serially before, during and after loading, '
          'interleaved with traffic and failing channels (the Close() of an idle departing member\'s channel sometimes reports an error, which the provider logs and swallows). At every quiescent point with no notification '
          'pending: heap endpoints U aperture idle endpoints == truth set, disjoint, no duplicates; at the end (heap '
          'balancer, all members healthy) |members| requests are left outstanding and exactly the current members '
          'must have received one each. Every 4th case instead drives a complete real client stack (C01\'s scenarios '
          'with joins and leaves under traffic and faults) and compares at final quiescence. '
          'non-trivial = a join or leave was delivered; distinct as C03')
  REQUIRED_CLASSES = ('heap', 'aperture', 'join-duplicate', 'leave-unknown', 'rejoin', 'notify-during-loading',
                      'rejoin-while-draining', 'removal', 'init-retry', 'saturation-probe', 'full-stack', 'tuple-endpoints', 'close-raises-on-leave', 'duplicates-in-initial-list',
                      'named-endpoint')
  ASSUMPTIONS = ('eligible endpoints are read from the balancer\'s heap and idle set (observe_at: internal)',)

  def run_case(self, env, rng, idx, tier):
    if idx % 4 == 3:
      if not hasattr(self, '_full'):
        self._full = _FullStackMembership()
      res = self._full.run_case(env, rng, idx, tier)
      res.classes = sorted(set(res.classes) | {'full-stack'})
      res.sig = ('full-stack', res.sig)
      return res
    return LBCheck.run_case(self, env, rng, idx, tier)

  def profile(self, rng, tier):
    return {'dispatch': 25, 'complete': 20, 'down': 5, 'up': 4, 'leave': 20, 'join': 20, 'advance': 6}


CHECK = C05()
