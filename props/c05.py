"""C05 - balancer membership equals the server set after any join/leave history."""
from props.lbcommon import LBCheck
from props.fullcommon import FullCheck


class _FullStackMembership(FullCheck):
  """Every 4th case: a complete client stack (real channels) on the simulated network with
  members joining and leaving under traffic and faults; judged at final quiescence."""
  ID = 'C05'
  FOCUS = ('membership:',)
  REQUIRED_CLASSES = ()

  def bias(self, rng):
    return {'membership': 0.6, 'scripted': 0.9}


class C05(LBCheck):
  ID = 'C05'
  FOCUS = ('membership:',)
  RULE = ('same world as C03 with a notification-heavy profile: scripted server-set provider whose '
          'GetServers() may take virtual time / fail once / name a member twice, endpoints are the library\'s Endpoint objects or (a fifth of the cases) plain named tuples, notifications (joins, duplicate joins, leaves, '
          'leaves of unknown members, re-joins) delivered serially before, during and after loading, '
          'interleaved with traffic and failing channels (the Close() of an idle departing member\'s channel sometimes reports an error, which the provider logs and swallows). At every quiescent point with no notification '
          'pending: heap endpoints U aperture idle endpoints == truth set, disjoint, no duplicates; at the end (heap '
          'balancer, all members healthy) |members| requests are left outstanding and exactly the current members '
          'must have received one each. Every 4th case instead drives a complete real client stack (C01\'s scenarios '
          'with joins and leaves under traffic and faults) and compares at final quiescence. '
          'Every 8th case puts the real ZooKeeperServerSetProvider (over the in-memory ZooKeeper, optionally naming an additional endpoint) under the balancer: member znodes are created, deleted and restarted under traffic and the eligible endpoints must equal the endpoints of the znodes present at every quiescent point. '
          'Every 8th case (another one) uses member channels whose Close() yields: a loaded member leaves, drains to its last request, and 1-3 joins / leaves of other members (the heap root, idle members, the departed member itself) are queued for the instant in which that request completes and the balancer closes the drained channel under its own lock. '
          'non-trivial = a join or leave was delivered; distinct as C03')
  REQUIRED_CLASSES = ('heap', 'aperture', 'join-duplicate', 'leave-unknown', 'rejoin', 'notify-during-loading',
                      'rejoin-while-draining', 'removal', 'init-retry', 'saturation-probe', 'full-stack', 'tuple-endpoints', 'close-raises-on-leave', 'duplicates-in-initial-list',
                      'named-endpoint', 'zk-backed', 'zk-backed:named-endpoint', 'open-called-again', 'zk-backed:restart', 'zk-backed:path-recreated', 'zk-backed:provider-shared-by-two-balancers', 'zk-backed:registrant-without-the-named-endpoint', 'look-alike-endpoints',
                      'yielding-close', 'yielding-close:closed-inside-completion', 'yielding-close:root-leaves-in-window',
                      'yielding-close:idle-leaves-in-window', 'yielding-close:rejoin-in-window', 'thrift', 'mux')
  ASSUMPTIONS = ('eligible endpoints are read from the balancer\'s heap and idle set (observe_at: internal)',)

  def _zk_backed(self, env, rng, idx, tier):
    """The real ZooKeeper provider (zk://... as the URI parser builds it, optionally naming an
    additional endpoint) over the in-memory ZooKeeper, under a real balancer with harness-owned
    member channels: the history is znodes being created and deleted under traffic."""
    import json
    import gevent
    from scales.loadbalancer.serverset import ZooKeeperServerSetProvider
    from scales.loadbalancer.zookeeper import Endpoint
    from vlib.fakezk import FakeKazooClient
    from vlib.framework import CaseResult
    from vlib.lbworld import make_world
    out = CaseResult()
    kind = rng.choice(['heap', 'aperture'])
    named = rng.choice([None, 'aux', 'thrift'])
    classes = {kind, 'zk-backed'} | ({'zk-backed:named-endpoint'} if named else set())
    lat_cls = rng.choice(['zero', 'small', 'large'])
    zk = FakeKazooClient(env, rng, {'zero': (0.0, 0.0), 'small': (0.0, 0.003), 'large': (0.0, 0.05)}[lat_cls])
    path = '/svc/prod'
    zk.nodes['/svc'] = [b'', {'czxid': 1, 'mzxid': 1, 'version': 0, 'cversion': 0, 'pzxid': 1}]
    zk.create_node(path)
    counter, port = [0], [7000]
    facts = {'balancer': kind, 'named': bool(named), 'latency': lat_cls}

    bad_ok = [False]      # (only once the balancer has opened: what a listing that cannot be loaded means is not stated)

    def add_member():
      counter[0] += 1
      port[0] += 1
      blob = {'serviceEndpoint': {'host': 'svc%d' % port[0], 'port': port[0]},
              'additionalEndpoints': {'aux': {'host': 'aux%d' % port[0], 'port': port[0] + 1000},
                                      'thrift': {'host': 'th%d' % port[0], 'port': port[0] + 2000},
                                      'admin': {'host': 'adm%d' % port[0], 'port': port[0] + 3000}},
              'status': 'ALIVE'}
      if named and bad_ok[0] and rng.random() < 0.15:
        # a registrant that does not publish the endpoint the balancer is configured with: the balancer
        # cannot use it (its join and leave are refused with an error, which the provider logs); the
        # other changes of the same listing are not its business
        del blob['additionalEndpoints'][named]
        classes.add('zk-backed:registrant-without-the-named-endpoint')
      zk.create_node('%s/member_%010d' % (path, counter[0]), json.dumps(blob).encode())

    def truth():
      t = set()
      for p_, (data, _st) in zk.nodes.items():
        if p_.startswith(path + '/member_'):
          d = json.loads(data)
          e = d['additionalEndpoints'].get(named) if named else d['serviceEndpoint']
          if e is not None:
            t.add(Endpoint(e['host'], e['port']))
      return t
    for _ in range(rng.choice([0, 1, 3, 6])):
      add_member()
    zk.create_node(path + '/lock_0001', b'not a member')
    prov = ZooKeeperServerSetProvider(zk, path, endpoint_name=named)
    lb_params = {}
    if kind == 'aperture':
      lb_params = {'min_size': rng.choice([1, 2]), 'max_size': 2 ** 31, 'min_load': 0.5, 'max_load': 2.0,
                   'jitter_min_sec': 0, 'jitter_max_sec': 0}
    w = make_world(env, rng, kind, lb_params, lambda ch: (rng.choice([0.0, 0.0, 0.02]), True), provider=prov)
    lb = w.lb
    open_ar = w.top.Open()
    # members come and go while the balancer is still loading its initial listing
    for _ in range(rng.choice([0, 0, 2])):
      add_member()
      classes.add('zk-backed:change-during-loading')
      gevent.sleep(0)
    members0 = sorted(p_ for p_ in zk.nodes if p_.startswith(path + '/member_'))
    if lat_cls != 'zero' and len(members0) >= 6 and idx % 16 == 5:
      # a member re-registers under its old node name with another address while the balancer is still
      # loading: the listing without it and the listing with it again are both delivered (one round
      # trip apart) and wait, queued, for the provider's worker
      classes.add('zk-backed:same-name-new-address-during-loading')
      old = members0[-1]              # (read last: the balancer is still busy with the others)
      gevent.sleep(0.0001)            # the balancer has begun to read the member list
      zk.delete_node(old)
      gevent.sleep(2 * zk.latency[1] + 0.001)
      port[0] += 1
      blob = {'serviceEndpoint': {'host': 'svc%d' % port[0], 'port': port[0]},
              'additionalEndpoints': {'aux': {'host': 'aux%d' % port[0], 'port': port[0] + 1000},
                                      'thrift': {'host': 'th%d' % port[0], 'port': port[0] + 2000},
                                      'admin': {'host': 'adm%d' % port[0], 'port': port[0] + 3000}},
              'status': 'ALIVE'}
      zk.create_node(old, json.dumps(blob).encode())
    g = 0
    while not open_ar.ready() and g < 100:
      env.advance(0.05)
      g += 1
    live = []
    stats = {'dispatches': 0, 'checks': 0}
    bad_ok[0] = open_ar.ready()
    lb2 = None
    if idx % 5 == 4 and open_ar.ready():
      # a second client built from the same builder: its balancer shares the provider object with the first
      from scales.loadbalancer.heap import HeapBalancerSink as H_
      classes.add('zk-backed:provider-shared-by-two-balancers')
      w2 = make_world(env, rng, kind, dict(lb_params), lambda ch: (0.0, True), provider=prov)
      H_.Node.registry = w.nodes        # (the node registry stays with the first world)
      lb2 = w2.lb
      ar2 = w2.top.Open()
      g = 0
      while not ar2.ready() and g < 100:
        env.advance(0.05)
        g += 1

    def quiesce():
      for _ in range(100):
        env.advance(0.12)
        ss_ = prov._server_set
        if zk.quiet() and (ss_ is None or ss_._notification_queue.empty()):
          env.advance(0.12)
          if zk.quiet() and (ss_ is None or ss_._notification_queue.empty()):
            return True
      return False

    def check(where):
      if not quiesce():
        return
      stats['checks'] += 1
      out.obligations += 1
      t = truth()
      heap_eps = [n.endpoint for n in lb._heap[1:]]
      eligible = set(heap_eps) | set(getattr(lb, '_idle_endpoints', ()))
      if len(heap_eps) != len(set(heap_eps)):
        out.violate('membership:duplicate', '%s: endpoint appears twice in the balancer: %r' % (
          where, sorted(map(str, heap_eps))), facts)
      elif eligible != t:
        out.violate('membership:differs', '%s: balancer over the ZooKeeper provider can dispatch to %r, the member '
                    'znodes present name %r' % (where, sorted(map(str, eligible)), sorted(map(str, t))),
                    dict(facts, missing=bool(t - eligible), extra=bool(eligible - t)))
      if lb2 is not None and not out.violations:
        out.obligations += 1
        elig2 = set(n.endpoint for n in lb2._heap[1:]) | set(getattr(lb2, '_idle_endpoints', ()))
        if elig2 != t:
          out.violate('membership:differs', '%s: the second balancer sharing the ZooKeeper provider can dispatch to %r, the member '
                      'znodes present name %r' % (where, sorted(map(str, elig2)), sorted(map(str, t))),
                      dict(facts, second_balancer=True, missing=bool(t - elig2), extra=bool(elig2 - t)))
      bad = [n for n in lb._heap[1:] if getattr(n.channel, 'ep', n.endpoint) != n.endpoint]
      if bad:
        out.violate('membership:channel-of-other-endpoint', '%s: entry for %s dispatches over a channel created for %s' % (
          where, bad[0].endpoint, bad[0].channel.ep), facts)
    check('after open')
    nops = rng.choice([15, 40, 100])
    for _ in range(nops):
      k = rng.random()
      members = sorted(p_ for p_ in zk.nodes if p_.startswith(path + '/member_'))
      if k < 0.3:
        add_member()
      elif k < 0.55 and members:
        zk.delete_node(rng.choice(members))
      elif k < 0.62:
        classes.add('zk-backed:burst')
        for _i in range(rng.randint(2, 6)):
          mm = sorted(p_ for p_ in zk.nodes if p_.startswith(path + '/member_'))
          if mm and rng.random() < 0.5:
            zk.delete_node(rng.choice(mm))
          else:
            add_member()
      elif k < 0.68 and members:
        # a member restarts: same data under a new node name
        classes.add('zk-backed:restart')
        old = rng.choice(members)
        data_ = zk.nodes[old][0]
        zk.delete_node(old)
        if lat_cls != 'zero' and rng.random() < 0.5:
          gevent.sleep(rng.random() * zk.latency[1])
        counter[0] += 1
        zk.create_node('%s/member_%010d' % (path, counter[0]), data_)
      elif k < 0.72 and path in zk.nodes:
        # a blip: the watched path and everything below it goes away and is back, with new registrations,
        # before (or just after) the client has seen it missing
        classes.add('zk-backed:path-recreated')
        zk.delete_node(path, recursive=True)
        if lat_cls != 'zero' and rng.random() < 0.6:
          gevent.sleep(rng.random() * zk.latency[1] * rng.choice([0.3, 1.0, 2.5]))
        zk.create_node(path)
        for _i in range(rng.choice([0, 1, 2, 3])):
          add_member()
          if lat_cls != 'zero' and rng.random() < 0.3:
            gevent.sleep(rng.random() * zk.latency[1])
      elif k < 0.9:
        r = w.dispatch(timeout=None)
        stats['dispatches'] += 1
        if r.get('raised'):
          out.violate('dispatch:raised', 'dispatch raised %s' % (r['raised'][0],), facts, {'traceback': r['raised'][1]})
        elif r['channel'] is not None and not r['deliveries']:
          live.append(r)
      elif live:
        w.complete(live.pop(rng.randrange(len(live))), 'reply')
      if rng.random() < 0.3:
        gevent.sleep(rng.random() * 0.004)
      elif rng.random() < 0.3:
        check('mid-history')
      if len(out.violations) >= 4:
        break
    check('end of history')
    # every current member is reachable through the balancer: with all of them idle, |members|
    # dispatches without completions go to |members| different endpoints (heap balancer)
    for r in list(live):
      w.complete(r, 'reply')
    env.advance(0.5)
    if kind == 'heap' and quiesce() and not out.violations:
      t = truth()
      got = set()
      for _ in range(len(t)):
        r = w.dispatch(timeout=None)
        if r['channel'] is not None:
          got.add(r['channel'].ep)
          live.append(r)
      out.obligations += 1
      if got != t:
        out.violate('membership:traffic', 'with every member idle, one request per member reached %r, members are %r' % (
          sorted(map(str, got)), sorted(map(str, t))), facts)
      for r in list(live):
        w.complete(r, 'reply')
    if lb2 is not None:
      w2.top.Close()
    w.top.Close()
    zk.shutdown()
    env.advance(0.2)
    out.classes = sorted(classes)
    out.nontrivial = stats['checks'] >= 2 and counter[0] >= 2
    out.extra = {'zk_members_created': counter[0], 'zk_checks': stats['checks'], 'zk_dispatches': stats['dispatches'],
                 'zk_callback_errors_diag': len(zk.callback_errors)}
    out.sig = ('zk-backed', kind, named, lat_cls, nops, sorted(c for c in classes if ':' in c))
    return out

  def _yielding_close(self, env, rng, idx, tier):
    """Channels whose Close() yields (cooperative work inside it): the balancer closes a drained
    departed member from inside the completion of its last request, under its own lock, and
    joins / leaves of other members arrive in that very window."""
    import gevent
    from scales.loadbalancer.zookeeper import Endpoint
    from vlib.framework import CaseResult
    from vlib.lbworld import make_world, Member
    out = CaseResult()
    kind = rng.choice(['heap', 'aperture', 'aperture'])
    classes = {kind, 'yielding-close'}
    facts = {'balancer': kind, 'scenario': 'yielding-close'}
    lb_params = {}
    if kind == 'aperture':
      lb_params = {'min_size': rng.choice([1, 2]), 'max_size': 2 ** 31, 'min_load': 0.5, 'max_load': 2.0,
                   'jitter_min_sec': 0, 'jitter_max_sec': 0}
    w = make_world(env, rng, kind, lb_params, lambda ch: (0.0, True))
    lb, ss = w.lb, w.ss
    pool = [Endpoint('y%02d' % i, 7300 + i) for i in range(12)]
    for ep in pool[:rng.randint(4, 7)]:
      ss.truth[ep] = Member(ep)
    w.top.Open()
    env.advance(0.2)
    w.close_yields = True
    live = []
    stats = {'rounds': 0, 'window_notifications': 0}

    def issue():
      r = w.dispatch(timeout=None)
      if r.get('raised'):
        out.violate('dispatch:raised', 'dispatch raised %r' % (r['raised'][0],), facts, {'traceback': r['raised'][1]})
      elif r['channel'] is not None and not r['deliveries']:
        live.append(r)
      return r

    def finish(r):
      if r in live:
        live.remove(r)
      if r['channel'] is not None and r in r['channel'].inflight:
        w.complete(r, 'reply')

    def check(where):
      env.settle()
      if ss.pending:
        env.advance(0.05)
      if ss.pending:
        return
      out.obligations += 1
      heap_eps = [n.endpoint for n in lb._heap[1:]]
      idle = set(getattr(lb, '_idle_endpoints', ()))
      truth = set(ss.truth)
      eligible = set(heap_eps) | idle
      if len(heap_eps) != len(set(heap_eps)):
        out.violate('membership:duplicate', '%s: endpoint appears twice in the balancer: %r' % (
          where, sorted(map(str, heap_eps))), facts)
      elif set(heap_eps) & idle:
        out.violate('membership:active-and-idle', '%s: endpoints both active and idle: %r' % (
          where, sorted(map(str, set(heap_eps) & idle))), facts)
      elif eligible != truth:
        out.violate('membership:differs', '%s: balancer can dispatch to %r, server set is %r' % (
          where, sorted(map(str, eligible)), sorted(map(str, truth))),
          dict(facts, missing=bool(truth - eligible), extra=bool(eligible - truth)))
      for e in env.errors:
        out.violate('greenlet-error:' + e['type'], '%s: unhandled exception in a balancer greenlet: %s: %s\n%s' % (
          where, e['type'], e['value'], e['tb'][-400:]), dict(facts, exc=e['type']))
      del env.errors[:]
      if w.callback_errors:
        out.violate('notification:raised', '%s: a join/leave notification raised inside the balancer: %r' % (
          where, w.callback_errors[-1]), facts)
        del w.callback_errors[:]

    for _round in range(rng.choice([2, 4, 6])):
      if len(out.violations) >= 4:
        break
      # ---- load: K requests held for a while, so that an aperture widens
      K = rng.choice([3, 6, 10])
      for _t in range(rng.choice([4, 12, 30])):
        while len(live) < K:
          if issue()['channel'] is None:
            break
        env.advance(0.5)
        if live:
          finish(live[rng.randrange(len(live))])
      check('under load')
      # ---- a loaded member leaves and drains down to its last request
      loaded = sorted({r['channel'].ep for r in live if r['channel'].ep in ss.truth}, key=str)
      if not loaded:
        continue
      P = rng.choice(loaded)
      ss.leave(P)
      env.settle()
      mine = [r for r in live if r['channel'].ep == P]
      for r in mine[1:]:
        finish(r)
      if rng.random() < 0.7:
        for r in [r for r in live if r['channel'].ep != P]:
          if rng.random() < 0.8:
            finish(r)
      env.advance(rng.choice([0.0, 10.0, 40.0]))     # the smoothed load follows the next event only
      check('member draining')
      if not mine or mine[0]['channel'].close_steps:
        continue
      # ---- notifications queued for the window in which the drained channel is being closed
      y0 = w.close_yielded
      for _n in range(rng.randint(1, 3)):
        k = rng.random()
        root = lb._heap[1].endpoint if lb._size else None
        active = sorted((n.endpoint for n in lb._heap[1:]), key=str)
        idle = sorted(getattr(lb, '_idle_endpoints', ()), key=str)
        if k < 0.35 and root is not None and root in ss.truth:
          ss.leave(root)
          classes.add('yielding-close:root-leaves-in-window')
        elif k < 0.5 and active:
          ep = rng.choice(active)
          if ep in ss.truth:
            ss.leave(ep)
        elif k < 0.65 and idle:
          ss.leave(rng.choice(idle))
          classes.add('yielding-close:idle-leaves-in-window')
        elif k < 0.8:
          ss.join(P)
          classes.add('yielding-close:rejoin-in-window')
        else:
          ss.join(rng.choice(pool))
        stats['window_notifications'] += 1
      finish(mine[0])
      stats['rounds'] += 1
      if w.close_yielded > y0:
        classes.add('yielding-close:closed-inside-completion')
      check('after the drained member was closed')
    for r in list(live):
      finish(r)
    env.advance(0.5)
    check('end of history')
    w.close_yields = False
    w.top.Close()
    env.settle()
    out.classes = sorted(classes)
    out.nontrivial = stats['rounds'] >= 1
    out.extra = {'yc_rounds': stats['rounds'], 'yc_window_notifications': stats['window_notifications'],
                 'yc_close_yields': w.close_yielded}
    out.sig = ('yielding-close', kind, sorted(c for c in classes if ':' in c), min(stats['rounds'], 4))
    return out

  def run_case(self, env, rng, idx, tier):
    if idx % 8 == 6:
      return self._yielding_close(env, rng, idx, tier)
    if idx % 8 == 5:
      return self._zk_backed(env, rng, idx, tier)
    if idx % 4 == 3:
      if not hasattr(self, '_full'):
        self._full = _FullStackMembership()
      res = self._full.run_case(env, rng, idx // 4, tier)      # both parities: the stack kind alternates with the index
      res.classes = sorted(set(res.classes) | {'full-stack'})
      res.sig = ('full-stack', res.sig)
      return res
    return LBCheck.run_case(self, env, rng, idx, tier)

  def profile(self, rng, tier):
    return {'dispatch': 25, 'complete': 20, 'down': 5, 'up': 4, 'leave': 20, 'join': 20, 'advance': 6}


CHECK = C05()
