"""C05 - balancer membership equals the server set after any join/leave history."""
from props.lbcommon import LBCheck
from props.fullcommon import FullCheck


class _FullStackMembership(FullCheck):
  """Every 4th case: a complete client stack (real channels) on the simulated network with
  members joining and leaving under traffic and faults; judged at final quiescence."""
  ID = 'C05'
  FOCUS = ('membership:',)
  REQUIRED_CLASSES = ()

  def bias(self, rng):
    return {'membership': 0.6, 'scripted': 0.9}


class C05(LBCheck):
  ID = 'C05'
  FOCUS = ('membership:',)
  RULE = ('same world as C03 with a notification-heavy profile: scripted server-set provider whose '
          'GetServers() may take virtual time / fail once / name a member twice, endpoints are the library\'s Endpoint objects or (a fifth of the cases) plain named tuples, notifications (joins, duplicate joins, leaves, '
          'leaves of unknown members, re-joins) delivered serially before, during and after loading, '
          'interleaved with traffic and failing channels (the Close() of an idle departing member\'s channel sometimes reports an error, which the provider logs and swallows). At every quiescent point with no notification '
          'pending: heap endpoints U aperture idle endpoints == truth set, disjoint, no duplicates; at the end (heap '
          'balancer, all members healthy) |members| requests are left outstanding and exactly the current members '
          'must have received one each. Every 4th case instead drives a complete real client stack (C01\'s scenarios '
          'with joins and leaves under traffic and faults) and compares at final quiescence. '
          'Every 8th case puts the real ZooKeeperServerSetProvider (over the in-memory ZooKeeper, optionally naming an additional endpoint) under the balancer: member znodes are created, deleted and restarted under traffic and the eligible endpoints must equal the endpoints of the znodes present at every quiescent point. '
          'non-trivial = a join or leave was delivered; distinct as C03')
  REQUIRED_CLASSES = ('heap', 'aperture', 'join-duplicate', 'leave-unknown', 'rejoin', 'notify-during-loading',
                      'rejoin-while-draining', 'removal', 'init-retry', 'saturation-probe', 'full-stack', 'tuple-endpoints', 'close-raises-on-leave', 'duplicates-in-initial-list',
                      'named-endpoint', 'zk-backed', 'zk-backed:named-endpoint', 'zk-backed:restart', 'look-alike-endpoints')
  ASSUMPTIONS = ('eligible endpoints are read from the balancer\'s heap and idle set (observe_at: internal)',)

  def _zk_backed(self, env, rng, idx, tier):
    """The real ZooKeeper provider (zk://... as the URI parser builds it, optionally naming an
    additional endpoint) over the in-memory ZooKeeper, under a real balancer with harness-owned
    member channels: the history is znodes being created and deleted under traffic."""
    import json
    import gevent
    from scales.loadbalancer.serverset import ZooKeeperServerSetProvider
    from scales.loadbalancer.zookeeper import Endpoint
    from vlib.fakezk import FakeKazooClient
    from vlib.framework import CaseResult
    from vlib.lbworld import make_world
    out = CaseResult()
    kind = rng.choice(['heap', 'aperture'])
    named = rng.choice([None, 'aux', 'thrift'])
    classes = {kind, 'zk-backed'} | ({'zk-backed:named-endpoint'} if named else set())
    lat_cls = rng.choice(['zero', 'small', 'large'])
    zk = FakeKazooClient(env, rng, {'zero': (0.0, 0.0), 'small': (0.0, 0.003), 'large': (0.0, 0.05)}[lat_cls])
    path = '/svc/prod'
    zk.nodes['/svc'] = [b'', {'czxid': 1, 'mzxid': 1, 'version': 0, 'cversion': 0, 'pzxid': 1}]
    zk.create_node(path)
    counter, port = [0], [7000]
    facts = {'balancer': kind, 'named': bool(named), 'latency': lat_cls}

    def add_member():
      counter[0] += 1
      port[0] += 1
      blob = {'serviceEndpoint': {'host': 'svc%d' % port[0], 'port': port[0]},
              'additionalEndpoints': {'aux': {'host': 'aux%d' % port[0], 'port': port[0] + 1000},
                                      'thrift': {'host': 'th%d' % port[0], 'port': port[0] + 2000},
                                      'admin': {'host': 'adm%d' % port[0], 'port': port[0] + 3000}},
              'status': 'ALIVE'}
      zk.create_node('%s/member_%010d' % (path, counter[0]), json.dumps(blob).encode())

    def truth():
      t = set()
      for p_, (data, _st) in zk.nodes.items():
        if p_.startswith(path + '/member_'):
          d = json.loads(data)
          e = d['additionalEndpoints'][named] if named else d['serviceEndpoint']
          t.add(Endpoint(e['host'], e['port']))
      return t
    for _ in range(rng.choice([0, 1, 3, 6])):
      add_member()
    zk.create_node(path + '/lock_0001', b'not a member')
    prov = ZooKeeperServerSetProvider(zk, path, endpoint_name=named)
    lb_params = {}
    if kind == 'aperture':
      lb_params = {'min_size': rng.choice([1, 2]), 'max_size': 2 ** 31, 'min_load': 0.5, 'max_load': 2.0,
                   'jitter_min_sec': 0, 'jitter_max_sec': 0}
    w = make_world(env, rng, kind, lb_params, lambda ch: (rng.choice([0.0, 0.0, 0.02]), True), provider=prov)
    lb = w.lb
    open_ar = w.top.Open()
    # members come and go while the balancer is still loading its initial listing
    for _ in range(rng.choice([0, 0, 2])):
      add_member()
      classes.add('zk-backed:change-during-loading')
      gevent.sleep(0)
    g = 0
    while not open_ar.ready() and g < 100:
      env.advance(0.05)
      g += 1
    live = []
    stats = {'dispatches': 0, 'checks': 0}

    def quiesce():
      for _ in range(100):
        env.advance(0.12)
        ss_ = prov._server_set
        if zk.quiet() and (ss_ is None or ss_._notification_queue.empty()):
          env.advance(0.12)
          if zk.quiet() and (ss_ is None or ss_._notification_queue.empty()):
            return True
      return False

    def check(where):
      if not quiesce():
        return
      stats['checks'] += 1
      out.obligations += 1
      t = truth()
      heap_eps = [n.endpoint for n in lb._heap[1:]]
      eligible = set(heap_eps) | set(getattr(lb, '_idle_endpoints', ()))
      if len(heap_eps) != len(set(heap_eps)):
        out.violate('membership:duplicate', '%s: endpoint appears twice in the balancer: %r' % (
          where, sorted(map(str, heap_eps))), facts)
      elif eligible != t:
        out.violate('membership:differs', '%s: balancer over the ZooKeeper provider can dispatch to %r, the member '
                    'znodes present name %r' % (where, sorted(map(str, eligible)), sorted(map(str, t))),
                    dict(facts, missing=bool(t - eligible), extra=bool(eligible - t)))
      bad = [n for n in lb._heap[1:] if getattr(n.channel, 'ep', n.endpoint) != n.endpoint]
      if bad:
        out.violate('membership:channel-of-other-endpoint', '%s: entry for %s dispatches over a channel created for %s' % (
          where, bad[0].endpoint, bad[0].channel.ep), facts)
    check('after open')
    nops = rng.choice([15, 40, 100])
    for _ in range(nops):
      k = rng.random()
      members = sorted(p_ for p_ in zk.nodes if p_.startswith(path + '/member_'))
      if k < 0.3:
        add_member()
      elif k < 0.55 and members:
        zk.delete_node(rng.choice(members))
      elif k < 0.62:
        classes.add('zk-backed:burst')
        for _i in range(rng.randint(2, 6)):
          mm = sorted(p_ for p_ in zk.nodes if p_.startswith(path + '/member_'))
          if mm and rng.random() < 0.5:
            zk.delete_node(rng.choice(mm))
          else:
            add_member()
      elif k < 0.68 and members:
        # a member restarts: same data under a new node name
        classes.add('zk-backed:restart')
        old = rng.choice(members)
        data_ = zk.nodes[old][0]
        zk.delete_node(old)
        if lat_cls != 'zero' and rng.random() < 0.5:
          gevent.sleep(rng.random() * zk.latency[1])
        counter[0] += 1
        zk.create_node('%s/member_%010d' % (path, counter[0]), data_)
      elif k < 0.9:
        r = w.dispatch(timeout=None)
        stats['dispatches'] += 1
        if r.get('raised'):
          out.violate('dispatch:raised', 'dispatch raised %s' % (r['raised'][0],), facts, {'traceback': r['raised'][1]})
        elif r['channel'] is not None and not r['deliveries']:
          live.append(r)
      elif live:
        w.complete(live.pop(rng.randrange(len(live))), 'reply')
      if rng.random() < 0.3:
        gevent.sleep(rng.random() * 0.004)
      elif rng.random() < 0.3:
        check('mid-history')
      if len(out.violations) >= 4:
        break
    check('end of history')
    # every current member is reachable through the balancer: with all of them idle, |members|
    # dispatches without completions go to |members| different endpoints (heap balancer)
    for r in list(live):
      w.complete(r, 'reply')
    env.advance(0.5)
    if kind == 'heap' and quiesce() and not out.violations:
      t = truth()
      got = set()
      for _ in range(len(t)):
        r = w.dispatch(timeout=None)
        if r['channel'] is not None:
          got.add(r['channel'].ep)
          live.append(r)
      out.obligations += 1
      if got != t:
        out.violate('membership:traffic', 'with every member idle, one request per member reached %r, members are %r' % (
          sorted(map(str, got)), sorted(map(str, t))), facts)
      for r in list(live):
        w.complete(r, 'reply')
    w.top.Close()
    zk.shutdown()
    env.advance(0.2)
    out.classes = sorted(classes)
    out.nontrivial = stats['checks'] >= 2 and counter[0] >= 2
    out.extra = {'zk_members_created': counter[0], 'zk_checks': stats['checks'], 'zk_dispatches': stats['dispatches'],
                 'zk_callback_errors_diag': len(zk.callback_errors)}
    out.sig = ('zk-backed', kind, named, lat_cls, nops, sorted(c for c in classes if ':' in c))
    return out

  def run_case(self, env, rng, idx, tier):
    if idx % 8 == 5:
      return self._zk_backed(env, rng, idx, tier)
    if idx % 4 == 3:
      if not hasattr(self, '_full'):
        self._full = _FullStackMembership()
      res = self._full.run_case(env, rng, idx, tier)
      res.classes = sorted(set(res.classes) | {'full-stack'})
      res.sig = ('full-stack', res.sig)
      return res
    return LBCheck.run_case(self, env, rng, idx, tier)

  def profile(self, rng, tier):
    return {'dispatch': 25, 'complete': 20, 'down': 5, 'up': 4, 'leave': 20, 'join': 20, 'advance': 6}


CHECK = C05()
